"""Generator of the WIDE class of C02 histories ((P) only: nothing of this is in Exec/Model.v).

Vocabulary the executor model does not have: several static spaces (some nested), inheritance between them (bases at
creation, add_bases / remove_bases, diamonds), space-valued references (`O1.f0(x)`, `O1.k`, `O1.Ch.k`), model-level
references read by name and through a space (`O1.g`), shadowing of a model-level reference in a space, a parametrised
space whose ItemSpaces (and their child spaces) read the same things, creation / deletion / renaming of cells and
spaces, parameter-formula changes, allow_none / is_cached flags.

A history is a plain list of operations (dicts).  `render(op)` gives the ONE Python statement (over the model `m`)
that performs it; the driver (drivers/c02wide.py) executes exactly these statements, so the reproducer script of a
failure is the history itself.  Objects are addressed by their CURRENT path at the time of the operation (never by a
kept handle), after a rename by the new name.

The generator keeps a MIRROR of the definitions (good enough to draw mostly accepted operations and to name the kind
of dependency path between an edited object and the cells reading it); the implementation decides what is accepted:
an operation refused by the live model must be refused in the same way by the edits-only replay.

Known findings of this class (findings.d/C02.txt; the generator does not draw their trigger, counted in notes):
  C02_wide_1  Gen.w1: deleting a space / renaming a child space that some formula reads a MODEL-LEVEL reference through
              by attribute path (`O.g`, `O.Ch.g`); renaming a child space through which some formula calls a cells that
              was ever uncached (`O.Ch.f(1)`)
  C02_wide_2  Gen.w2: add_bases that makes a space derive a reference shadowing a model-level one some formula reads by
              attribute path
  C02_wide_3  e_flag: cells.allow_none on a cells whose copies ItemSpaces may hold
  C02_wide_4  e_flag: allow_none switched off (cells or space) after any allow_none was switched on in the history
The predicates are evaluated on the mirror; the driver cuts a generated history at the first edit whose outcome
(accepted / refused) is not the one the mirror foresaw ("xr": refusal expected), so they never rest on a drifted mirror.

No recursion whatever the names resolve to: a cells name carries a rank (f0 g0 h0 e0 < f1 ... < f3) and a formula of
rank r calls only cells of rank < r, in whatever space; renaming keeps rank and arity (f<->g: one parameter, h<->e: none);
references never hold cells; no formula evaluates an ItemSpace.  Every formula is one expression over small integers.
"""
import copy, collections, json

TOPS = ["A", "B", "C", "D"]
EXTRA_TOPS = ["E", "F", "R", "S", "T", "U"]
CHILDREN = ["Ch", "Cg"]
EXTRA_CHILDREN = ["Ck", "Cm"]
PARS = ["P", "Q"]
INT_REFS = ["k", "j"]
GLOBALS = ["g", "w"]
SPACE_REFS = ["O1", "O2"]
GLOBAL_SPACE_REF = "OG"
RANKS = 4
GRID = [0, 1, 2]
KEYS = [1, 2]

EDIT_OPS = ("newspace", "delspace", "renspace", "newcells", "delcells", "rencells", "setf", "setv", "clearat", "clear", "clearall",
            "setref", "delref", "addbases", "rmbases", "setpf", "delpf", "flag", "sflag")
# discarding ItemSpaces changes no definition (and whether `del P[1]` is accepted depends on what was evaluated): like
# the evaluations, these run in the live model only
CACHE_OPS = ("clearitems", "delitem")


def cname(letter, rank):
    return "%s%d" % (letter, rank)


def rank_of(name):
    return int(name[1:])


def arity_of(name):
    return 1 if name[0] in "fg" else 0


# --------------------------------------------------------------------------
# rendering: the one statement an operation stands for
# --------------------------------------------------------------------------
def rpath(p):
    return "m" + "".join("." + x for x in p)


def rtarget(t):
    s = rpath(t["p"])
    if t.get("key") is not None:
        s += "[%s]" % ", ".join(str(k) for k in t["key"])
        s += "".join("." + x for x in t.get("sub") or [])
    return s


def rval(v):
    return str(v[1]) if v[0] == "int" else rpath(v[1])


def rargs(a):
    return ", ".join(str(x) for x in a)


def render(op):
    k = op["op"]
    if k == "newspace":
        kw = [repr(op["name"])]
        if op.get("bases"):
            kw.append("bases=[%s]" % ", ".join(rpath(b) for b in op["bases"]))
        if op.get("pf"):
            kw.append("formula=%r" % op["pf"])
        return "%s.new_space(%s)" % (rpath(op["p"]), ", ".join(kw))
    if k == "delspace":
        return "del %s" % rpath(op["p"])
    if k == "renspace":
        return "%s.rename(%r)" % (rpath(op["p"]), op["name"])
    if k == "newcells":
        return "%s.new_cells(%r, formula=%r)" % (rpath(op["p"]), op["name"], op["f"])
    if k == "delcells":
        return "del %s.%s" % (rpath(op["p"]), op["name"])
    if k == "rencells":
        return "%s.%s.rename(%r)" % (rpath(op["p"]), op["name"], op["to"])
    if k == "setf":
        return "%s.%s.set_formula(%r)" % (rpath(op["p"]), op["name"], op["f"])
    if k == "setv":
        return "%s.%s[%s] = %d" % (rpath(op["p"]), op["name"], rargs(op["args"]) if op["args"] else "()", op["v"])
    if k == "clearat":
        return "%s.%s.clear_at(%s)" % (rpath(op["p"]), op["name"], rargs(op["args"]))
    if k == "clear":
        return "%s.%s.clear()" % (rpath(op["p"]), op["name"])
    if k == "clearall":
        return "%s.%s.clear_all()" % (rpath(op["p"]), op["name"])
    if k == "setref":
        return "%s.%s = %s" % (rpath(op["p"]), op["name"], rval(op["v"]))
    if k == "delref":
        return "del %s.%s" % (rpath(op["p"]), op["name"])
    if k == "addbases":
        return "%s.add_bases(%s)" % (rpath(op["p"]), ", ".join(rpath(b) for b in op["bases"]))
    if k == "rmbases":
        return "%s.remove_bases(%s)" % (rpath(op["p"]), ", ".join(rpath(b) for b in op["bases"]))
    if k == "setpf":
        return "%s.set_formula(%r)" % (rpath(op["p"]), op["pf"])
    if k == "delpf":
        return "del %s.formula" % rpath(op["p"])
    if k == "flag":
        return "%s.%s.%s = %r" % (rpath(op["p"]), op["name"], op["flag"], op["v"])
    if k == "sflag":
        return "%s.allow_none = %r" % (rpath(op["p"]), op["v"])
    if k == "clearitems":
        return "%s.clear_items()" % rpath(op["p"])
    if k == "delitem":
        return "del %s[%s]" % (rpath(op["p"]), rargs(op["key"]))
    if k == "eval":
        return "%s.%s(%s)" % (rtarget(op["t"]), op["name"], rargs(op["args"]))
    raise ValueError(op)


def is_edit(op):
    return op["op"] in EDIT_OPS


def script(ops, query=None, note=""):
    """stand-alone reproducer: the history with and without its evaluations, then the query"""
    lines = ["# C02 (wide class): %s" % note,
             "# run:  PYTHONPATH=<modelx repo> python this.py    (exit status 1 while the two models disagree)",
             "import sys", "import modelx as mx", "", "HISTORY = ["]
    for op in ops:
        if op["op"] == "sweep":
            continue
        lines.append("    (%r, %r)," % ("edit" if is_edit(op) else "eval" if op["op"] == "eval" else "cache", render(op)))
    lines += ["]", "",
              "def build(with_evaluations):",
              "    m = mx.new_model()",
              "    for kind, src in HISTORY:",
              "        if kind != 'edit' and not with_evaluations:",
              "            continue",
              "        try:",
              "            exec(src, {'m': m, 'mx': mx})",
              "        except Exception as e:        # a refused edit / failing evaluation is part of the history",
              "            pass",
              "    return m", "",
              "def ask(m, src):",
              "    try:",
              "        return repr(eval(src, {'m': m}))",
              "    except Exception as e:",
              "        e = mx.get_error() if type(e).__name__ == 'FormulaError' and mx.get_error() is not None else e",
              "        return 'raises ' + type(e).__name__", ""]
    qs = [render(query)] if query is not None else []
    lines += ["QUERIES = %r" % qs,
              "live, fresh = build(True), build(False)     # fresh: only the edits, no evaluation in between",
              "bad = 0",
              "for q in QUERIES:",
              "    a, b = ask(live, q), ask(fresh, q)",
              "    print(q, ' live model:', a, ' edits-only replay:', b, '' if a == b else '   <-- STALE')",
              "    bad += a != b",
              "sys.exit(1 if bad else 0)", ""]
    return "\n".join(lines)


# --------------------------------------------------------------------------
# mirror of the definitions
# --------------------------------------------------------------------------
class Mirror:
    def __init__(self):
        self.sp = {}                 # sid -> {"name", "parent", "bases": [sid], "cells": {name: cell}, "refs": {name: val}, "pf": None|{...}}
        self.grefs = {}              # name -> val         val = ["int", z] | ["sp", sid] | ["dead"]
        self.ver = collections.Counter()
        self.nid = 0

    # ---- structure
    def path(self, sid):
        p = []
        while sid is not None:
            p.append(self.sp[sid]["name"])
            sid = self.sp[sid]["parent"]
        return p[::-1]

    def children(self, sid):
        return [s for s, d in self.sp.items() if d["parent"] == sid]

    def child(self, sid, name):
        for s in self.children(sid):
            if self.sp[s]["name"] == name:
                return s
        return None

    def tree(self, sid):
        out = [sid]
        for c in self.children(sid):
            out += self.tree(c)
        return out

    def ancestors(self, sid):
        out = []
        sid = self.sp[sid]["parent"]
        while sid is not None:
            out.append(sid)
            sid = self.sp[sid]["parent"]
        return out

    def mro(self, sid, bases=None):
        """C3 linearisation as modelx computes it (bases in the order they were added); None when there is none"""
        bases = bases if bases is not None else {s: d["bases"] for s, d in self.sp.items()}
        seqs = []
        for b in bases.get(sid, []):
            r = self.mro(b, bases)
            if r is None:
                return None
            seqs.append(r)
        seqs.append(list(bases.get(sid, [])))
        res = [sid]
        while True:
            seqs = [q for q in seqs if q]
            if not seqs:
                return res
            for q in seqs:
                cand = q[0]
                if any(cand in r[1:] for r in seqs):
                    cand = None
                else:
                    break
            if cand is None:
                return None
            res.append(cand)
            for q in seqs:
                if q[0] == cand:
                    del q[0]

    def mro_ok(self, change):
        """every space keeps a linearisation when [change] = {sid: new list of bases} is applied"""
        bases = {s: list(d["bases"]) for s, d in self.sp.items()}
        bases.update(change)
        return all(self.mro(s, bases) is not None for s in bases)

    def lin(self, sid, acc=None):
        if acc is None:
            if sid not in self.sp:
                return []
            r = self.mro(sid)
            if r is not None:
                return r
        acc = [] if acc is None else acc
        if sid in acc or sid not in self.sp:
            return acc
        acc.append(sid)
        for b in self.sp[sid]["bases"]:
            self.lin(b, acc)
        return acc

    def subs(self, sid):
        return [t for t in self.sp if t != sid and sid in self.lin(t)]

    def param_root(self, sid):
        while sid is not None:
            if self.sp[sid]["pf"]:
                return sid
            sid = self.sp[sid]["parent"]
        return None

    def vis_cells(self, sid):
        out = {}
        for q in self.lin(sid):
            for n, c in self.sp[q]["cells"].items():
                out.setdefault(n, (q, c))
        return out

    def vis_refs(self, sid):
        out = {}
        for q in self.lin(sid):
            for n, v in self.sp[q]["refs"].items():
                out.setdefault(n, (q, v))
        for n, v in self.grefs.items():
            out.setdefault(n, ("G", v))
        return out

    def space_of(self, val):
        return val[1] if val and val[0] == "sp" and val[1] in self.sp else None

    def val_path(self, val):
        return ["int", val[1]] if val[0] == "int" else ["space", self.path(val[1])]

    # ---- resolution of the atoms of a formula evaluated in space [sid] (tags of the distribution only)
    def resolve(self, sid, atom):
        """list of hops (identities with versions) or None"""
        k = atom[0]
        if k in ("const", "x"):
            return None
        if k == "i":
            r = self.param_root(sid)
            return [("ipar", r)] if r is not None else None
        if k == "name":
            r = self.vis_refs(sid).get(atom[1])
            if r is not None:
                return [("ref", r[0], atom[1], self.ver[("ref", r[0], atom[1])])]
            pr = self.param_root(sid)
            if pr is not None and atom[1] in (self.sp[pr]["pf"].get("refs") or []):
                return [("pfref", pr, atom[1], self.ver[("pf", pr)])]
            return None
        hops = []
        if k in ("attr", "xcall"):
            r = self.vis_refs(sid).get(atom[1])
            if r is None:
                return None
            hops.append(("ref", r[0], atom[1], self.ver[("ref", r[0], atom[1])]))
            t = self.space_of(r[1])
            if t is None:
                return hops + [("dead",)]
            if atom[2]:
                c = self.child(t, atom[2])
                if c is None:
                    return hops + [("nochild",)]
                hops.append(("child", t, atom[2], c))
                t = c
            name = atom[3]
        else:       # childattr / childcall / call
            t = sid
            if k in ("childattr", "childcall"):
                c = self.child(sid, atom[1])
                if c is None:
                    return None
                hops.append(("child", sid, atom[1], c))
                t = c
                name = atom[2]
            else:
                name = atom[1]
        if k in ("attr", "childattr"):
            r = self.vis_refs(t).get(name)
            if r is None:
                return hops + [("noname",)]
            hops.append(("ref", r[0], name, self.ver[("ref", r[0], name)], t))
        else:
            r = self.vis_cells(t).get(name)
            if r is None:
                return hops + [("noname",)]
            hops.append(("cell", r[0], name, self.ver[("cell", r[0], name)], self.ver[("inp", t, name)], self.ver[("space", t)], t))
        return hops

    def resolve_all(self):
        out = {}
        for sid, d in self.sp.items():
            for n, (q, c) in self.vis_cells(sid).items():
                for i, a in enumerate(c["atoms"]):
                    h = self.resolve(sid, a)
                    if h is not None:
                        out[(sid, n, i)] = (a[0] + ("_child" if a[0] in ("attr", "xcall") and a[2] else ""), tuple(h), json.dumps(a))
            if d["pf"]:
                for i, a in enumerate(d["pf"]["atoms"]):
                    h = self.resolve(sid, a)
                    if h is not None:
                        out[(sid, "_pf", i)] = ("pf_" + a[0], tuple(h), json.dumps(a))
        return out


def Mirror_without(m, gone):
    """every remaining space keeps a linearisation when the spaces [gone] are deleted"""
    bases = {t: [b for b in d["bases"] if b not in gone] for t, d in m.sp.items() if t not in gone}
    return all(m.mro(t, bases) is not None for t in bases)


ATOM_KIND = {"name": "ref_by_name", "attr": "ref_by_attr_path", "attr_child": "ref_by_attr_path_through_child",
             "call": "sibling_call", "xcall": "call_through_space_ref", "xcall_child": "call_through_space_ref_and_child",
             "childattr": "child_space_ref", "childcall": "child_space_call", "i": "space_parameter"}


def ident(h):
    return h[:3] if h[0] in ("ref", "cell", "pfref") else h


MARKERS = ("dead", "nochild", "noname")


def change_tag(before, after, evalspace):
    """name of the dependency path and of what happened to it"""
    kind, hb = before[0], before[1]
    base = ATOM_KIND.get(kind) or ("param_formula:" + ATOM_KIND.get(kind[3:], kind[3:]))
    last = hb[-1]
    where = ""
    if last[0] in ("ref", "cell"):
        t = last[-1] if len(last) > 4 else evalspace
        where = ":global" if last[1] == "G" else (":own" if last[1] == t else ":derived")
    elif last[0] == "pfref":
        where = ":itemspace_ref"
    if after is None:
        return base + where + ":no_longer_resolves"
    ha = after[1]
    for i, (x, y) in enumerate(zip(hb, ha)):
        final = i == len(hb) - 1
        if y[0] in MARKERS:
            return base + where + (":space_deleted" if y[0] == "dead" else ":no_longer_resolves")
        if ident(x) != ident(y):
            if x[0] == "ref" and y[0] == "ref" and x[1] == "G" and y[1] != "G":
                return base + where + (":shadowed" if final else ":space_ref_shadowed")
            if x[0] == "ref" and y[0] == "ref" and y[1] == "G" and x[1] != "G":
                return base + where + (":unshadowed" if final else ":space_ref_unshadowed")
            return base + where + (":retargeted" if final else ":space_ref_retargeted")
        if x != y:
            return base + where + (":edited" if final else ":space_ref_edited")
    return base + where + ":retargeted" if len(hb) != len(ha) else None


# --------------------------------------------------------------------------
# the generator
# --------------------------------------------------------------------------
class Gen:
    def __init__(self, rng):
        self.rng = rng
        self.m = Mirror()
        self.ops = []
        self.kinds = collections.Counter()
        self.notes = collections.Counter()
        self.used_names = set()
        self.feats = set()
        self.ever_uncached = set()       # names of cells that were ever made uncached
        self.none_allowed = False        # some allow_none flag (cells / space) was ever switched on

    # ---- plumbing
    def emit(self, op, kind=None, apply=True):
        if op["op"] in CACHE_OPS:
            op["kind"] = kind
            self.kinds[kind] += 1
        elif is_edit(op):
            before = self.m.resolve_all()
            names = {sid: ".".join(self.m.path(sid)) for sid in self.m.sp}
            self.apply(op)
            after = self.m.resolve_all()
            paths = {}
            for key, b in before.items():
                a = after.get(key)
                if a == b or key[0] not in names:
                    continue
                if key[0] not in self.m.sp:
                    tag = "holder_deleted_with_its_space"
                elif a is None and key[1] != "_pf" and key[1] not in self.m.vis_cells(key[0]):
                    tag = "holder_deleted_or_renamed"
                elif a is None and key[1] == "_pf" and not self.m.sp[key[0]]["pf"]:
                    tag = "param_formula_deleted"
                elif a is not None and a[2] != b[2]:
                    tag = "holder_redefined"
                elif b[1][-1][0] in MARKERS:
                    continue            # the path did not resolve before: nothing was held through it
                else:
                    tag = change_tag(b, a, key[0])
                    if tag is None:
                        continue
                lst = paths.setdefault(names[key[0]] + "." + key[1], [])
                if tag not in lst:
                    lst.append(tag)
            op["paths"] = paths
            if kind:
                op["kind"] = kind
                self.kinds[kind] += 1
        self.ops.append(op)

    def refused(self, op, kind):
        """an edit the library must refuse (in the live model and in the replay alike): the mirror stays as it is"""
        op.update({"kind": kind, "paths": {}, "xr": True})
        self.kinds[kind] += 1
        self.ops.append(op)
        return True

    def sid(self, path):
        cur = None
        for n in path:
            nxt = [s for s, d in self.m.sp.items() if d["parent"] == cur and d["name"] == n]
            if not nxt:
                return None
            cur = nxt[0]
        return cur

    def bump_tree_inputs(self, sid):
        for t in self.m.tree(sid):
            self.m.ver[("space", t)] += 1

    def apply(self, op):
        """the mirror's idea of an accepted edit (the implementation may refuse: the mirror then drifts, harmlessly)"""
        m = self.m
        k = op["op"]
        sid = self.sid(op["p"]) if op.get("p") else None
        if k == "newspace":
            new = m.nid
            m.nid += 1
            m.sp[new] = {"name": op["name"], "parent": sid, "bases": [self.sid(b) for b in op.get("bases") or []], "cells": {}, "refs": {},
                         "pf": dict(op["pfd"]) if op.get("pfd") else None}
        elif k == "delspace":
            dead = m.tree(sid)
            for t in dead:
                del m.sp[t]
            for d in m.sp.values():
                d["bases"] = [b for b in d["bases"] if b not in dead]
        elif k == "renspace":
            m.sp[sid]["name"] = op["name"]
            self.bump_tree_inputs(sid)
        elif k == "newcells":
            m.sp[sid]["cells"][op["name"]] = {"atoms": op["atoms"]}
            m.ver[("cell", sid, op["name"])] += 1
        elif k == "delcells":
            m.sp[sid]["cells"].pop(op["name"], None)
        elif k == "rencells":
            # the cells of that name in the sub spaces - overriding definitions too - are renamed with it
            if op["name"] in self.ever_uncached:
                self.ever_uncached.add(op["to"])
            for t in [sid] + m.subs(sid):
                c = m.sp[t]["cells"].pop(op["name"], None)
                if c is not None:
                    m.sp[t]["cells"][op["to"]] = c
        elif k == "setf":
            old = m.vis_cells(sid).get(op["name"])
            m.sp[sid]["cells"][op["name"]] = {"atoms": op["atoms"], "uncached": bool(old and old[1].get("uncached"))}
            m.ver[("cell", sid, op["name"])] += 1
        elif k in ("setv", "clearat", "clearall", "clear"):
            m.ver[("inp", sid, op["name"])] += 1
        elif k == "setref":
            v = op["v"]
            val = ["int", v[1]] if v[0] == "int" else ["sp", self.sid(v[1])]
            if sid is None:
                m.grefs[op["name"]] = val
                m.ver[("ref", "G", op["name"])] += 1
            else:
                m.sp[sid]["refs"][op["name"]] = val
                m.ver[("ref", sid, op["name"])] += 1
        elif k == "delref":
            if sid is None:
                m.grefs.pop(op["name"], None)
            else:
                m.sp[sid]["refs"].pop(op["name"], None)
        elif k == "addbases":
            m.sp[sid]["bases"] += [self.sid(b) for b in op["bases"]]
        elif k == "rmbases":
            for b in op["bases"]:
                b = self.sid(b)
                if b in m.sp[sid]["bases"]:
                    m.sp[sid]["bases"].remove(b)
        elif k == "setpf":
            m.sp[sid]["pf"] = dict(op["pfd"])
            m.ver[("pf", sid)] += 1
        elif k == "delpf":
            m.sp[sid]["pf"] = None
        elif k == "flag":
            q = m.vis_cells(sid).get(op["name"])
            if q:
                m.ver[("cell", q[0], op["name"])] += 1
                if op["flag"] == "is_cached":
                    q[1]["uncached"] = not op["v"]
                    if not op["v"]:
                        self.ever_uncached.add(op["name"])
        elif k == "sflag":
            self.bump_tree_inputs(sid)

    # ---- formulas
    def arg_src(self, caller_arity, sid):
        r = self.rng.random()
        if caller_arity and r < 0.5:
            return "x"
        if caller_arity and r < 0.65:
            return "(x + 1) % 3"
        if self.m.param_root(sid) is not None and r < 0.8:
            return "i % 3"
        return str(self.rng.choice(GRID))

    def atom_candidates(self, sid, rank, arity):
        """[(weight, atom, source)] by category"""
        m, rng = self.m, self.rng
        cats = {}
        cats["const"] = [(("const",), str(rng.randint(1, 9)))]
        if arity:
            cats["x"] = [(("x",), "x")]
        pr = m.param_root(sid)
        if pr is not None:
            cats["i"] = [(("i",), "i")]
        vr = m.vis_refs(sid)
        names = [n for n, (q, v) in vr.items() if v[0] == "int"]
        if pr is not None:
            names += list(m.sp[pr]["pf"].get("refs") or [])
        cats["name"] = [(("name", n), n) for n in names]
        cats["ghost"] = [(("name", n), n) for n in INT_REFS + GLOBALS if n not in names]
        attrs, xcalls = [], []
        for o, (q, v) in vr.items():
            t = m.space_of(v)
            if t is None:
                continue
            for sub in [None] + [m.sp[c]["name"] for c in m.children(t)]:
                tt = t if sub is None else m.child(t, sub)
                pre = o + ("." + sub if sub else "")
                for n, (q2, v2) in m.vis_refs(tt).items():
                    if v2[0] == "int":
                        # references the space derives from a base count three times (re-derivation is the rarer event)
                        attrs += [(("attr", o, sub, n), "%s.%s" % (pre, n))] * (3 if q2 not in ("G", tt) else 1)
                for c in m.vis_cells(tt):
                    if rank_of(c) < rank:
                        a = self.arg_src(arity, sid) if arity_of(c) else ""
                        xcalls.append((("xcall", o, sub, c, a), "%s.%s(%s)" % (pre, c, a)))
        cats["attr"] = attrs
        cats["xcall"] = xcalls
        calls = []
        for c in m.vis_cells(sid):
            if rank_of(c) < rank:
                a = self.arg_src(arity, sid) if arity_of(c) else ""
                calls.append((("call", c, a), "%s(%s)" % (c, a)))
        cats["call"] = calls
        ch = []
        for c in m.children(sid):
            cn = m.sp[c]["name"]
            for n, (q2, v2) in m.vis_refs(c).items():
                if v2[0] == "int" and q2 != "G":
                    ch.append((("childattr", cn, n), "%s.%s" % (cn, n)))
            for cc in m.vis_cells(c):
                if rank_of(cc) < rank:
                    a = self.arg_src(arity, sid) if arity_of(cc) else ""
                    ch.append((("childcall", cn, cc, a), "%s.%s(%s)" % (cn, cc, a)))
        cats["child"] = ch
        return cats

    WEIGHTS = {"const": 1.0, "x": 2.0, "i": 1.5, "name": 4.0, "ghost": 0.2, "attr": 5.0, "xcall": 4.0, "call": 3.0, "child": 2.5}

    def gen_formula(self, sid, name):
        rng = self.rng
        rank, arity = rank_of(name), arity_of(name)
        cats = {k: v for k, v in self.atom_candidates(sid, rank, arity).items() if v}
        keys = sorted(cats)
        atoms, srcs = [], []
        for _ in range(rng.choice([1, 2, 2, 3])):
            k = rng.choices(keys, [self.WEIGHTS[x] for x in keys])[0]
            a, s = rng.choice(cats[k])
            atoms.append(list(a))
            srcs.append(s)
        expr = srcs[0]
        for s in srcs[1:]:
            expr = "%s %s %s" % (expr, rng.choice(["+", "+", "+", "-", "*"]), s)
        r = rng.random()
        if arity and r < 0.08:
            expr = "None if x == 2 else " + expr
        elif r < 0.14 and cats.get("name"):
            a, s = rng.choice(cats["name"])
            atoms.append(list(a))
            expr = "(%s) // (%s - 3)" % (expr, s)
        elif arity and r < 0.24 and len(srcs) > 1:
            expr = "%s if x == 1 else %s" % (srcs[0], " + ".join(srcs[1:]))
        return ("lambda x: " if arity else "lambda: ") + expr, atoms

    def gen_pf(self, sid):
        """parameter formula of the parametrised space: source, refs it defines, atoms it reads"""
        rng, m = self.rng, self.m
        vr = m.vis_refs(sid) if sid is not None else {}
        ints = [n for n, (q, v) in vr.items() if v[0] == "int"]
        sps = [(n, m.space_of(v)) for n, (q, v) in vr.items() if m.space_of(v) is not None]
        r = rng.random()
        if r < 0.2:
            return {"src": "lambda i: None", "refs": [], "atoms": [], "kind": "none"}
        if r < 0.4:
            return {"src": "lambda i: {'refs': {'u': i * 10}}", "refs": ["u"], "atoms": [], "kind": "refs_const"}
        if r < 0.6 and ints:
            n = rng.choice(ints)
            return {"src": "lambda i: {'refs': {'u': %s + i}}" % n, "refs": ["u"], "atoms": [["name", n]], "kind": "reads_ref_by_name"}
        if r < 0.78 and sps:
            o, t = rng.choice(sps)
            tn = [n for n, (q, v) in m.vis_refs(t).items() if v[0] == "int"]
            if tn:
                n = rng.choice(tn)
                return {"src": "lambda i: {'refs': {'u': %s.%s + i}}" % (o, n), "refs": ["u"], "atoms": [["attr", o, None, n]],
                        "kind": "reads_ref_by_attr_path"}
        if r < 0.9 and sid is not None:
            cs = [c for c in m.vis_cells(sid) if rank_of(c) == 0]
            if cs:
                c = rng.choice(cs)
                a = "i % 3" if arity_of(c) else ""
                return {"src": "lambda i: {'refs': {'u': %s(%s)}}" % (c, a), "refs": ["u"], "atoms": [["call", c, a]], "kind": "calls_cells"}
        if sps and r >= 0.9:
            o, t = rng.choice(sps)
            if t != sid and sid not in m.lin(t):
                return {"src": "lambda i: {'base': %s, 'refs': {'u': i}}" % o, "refs": ["u"], "atoms": [["name", o]], "kind": "base_by_space_ref"}
        return {"src": "lambda i: {'refs': {'u': i + 1}}", "refs": ["u"], "atoms": [], "kind": "refs_const"}

    # ---- picking
    def spaces(self):
        return list(self.m.sp)

    def free_top(self):
        used = {d["name"] for d in self.m.sp.values() if d["parent"] is None} | self.used_names
        return [n for n in TOPS + EXTRA_TOPS if n not in used]

    def free_cells_names(self, sid, rank=None):
        vis = set(self.m.vis_cells(sid))
        for t in self.m.subs(sid):
            vis |= set(self.m.vis_cells(t))
        out = []
        for r in range(RANKS):
            if rank is not None and r != rank:
                continue
            for l in "fghe":
                if cname(l, r) not in vis:
                    out.append(cname(l, r))
        return out

    # ---- edits (each returns True when an operation was emitted)
    def e_setv(self):
        rng, m = self.rng, self.m
        cands = [(s, n) for s in m.sp for n in m.vis_cells(s)]
        if not cands:
            return False
        s, n = rng.choice(cands)
        op = {"op": "setv", "p": m.path(s), "name": n, "args": [rng.choice(GRID)] if arity_of(n) else [], "v": rng.randint(50, 59)}
        if m.vis_cells(s)[n][1].get("uncached"):
            if rng.random() < 0.7:
                return False
            return self.refused(op, "assign_input_to_uncached_cells(refused)")
        self.emit(op, "assign_input" + ("_to_derived_cells" if n not in m.sp[s]["cells"] else ""))
        return True

    def e_clearv(self):
        rng, m = self.rng, self.m
        cands = [(s, n) for s in m.sp for n in m.vis_cells(s)]
        if not cands:
            return False
        s, n = rng.choice(cands)
        k = rng.choice(["clearat", "clearat", "clear", "clearall"])
        op = {"op": k, "p": m.path(s), "name": n}
        if k == "clearat":
            op["args"] = [rng.choice(GRID)] if arity_of(n) else []
        self.emit(op, {"clearat": "clear_one_value", "clear": "clear_computed_values", "clearall": "clear_all_values"}[k])
        return True

    def e_setf(self):
        rng, m = self.rng, self.m
        own = [(s, n) for s in m.sp for n in m.sp[s]["cells"]]
        der = [(s, n) for s in m.sp for n, (q, c) in m.vis_cells(s).items() if q != s]
        pool = own * 3 + der
        if not pool:
            return False
        s, n = rng.choice(pool)
        f, atoms = self.gen_formula(s, n)
        self.emit({"op": "setf", "p": m.path(s), "name": n, "f": f, "atoms": atoms},
                  "change_formula" if n in m.sp[s]["cells"] else "override_derived_cells")
        return True

    def e_newcells(self):
        rng, m = self.rng, self.m
        s = rng.choice(self.spaces())
        free = self.free_cells_names(s)
        kind = "new_cells"
        if rng.random() < 0.15:
            # a name a sub space already defines (the new definition is overridden there)
            over = [n for t in m.subs(s) for n in m.sp[t]["cells"] if n not in m.vis_cells(s)]
            if over:
                free, kind = over, "new_cells_below_an_override"
        if not free:
            return False
        n = rng.choice(free)
        f, atoms = self.gen_formula(s, n)
        self.emit({"op": "newcells", "p": m.path(s), "name": n, "f": f, "atoms": atoms}, kind + ("_in_a_base" if m.subs(s) else ""))
        return True

    def e_delcells(self):
        rng, m = self.rng, self.m
        own = [(s, n) for s in m.sp for n in m.sp[s]["cells"]]
        if not own:
            return False
        if rng.random() < 0.06:
            der = [(s, n) for s in m.sp for n, (q, c) in m.vis_cells(s).items() if q != s]
            if der:
                s, n = rng.choice(der)
                return self.refused({"op": "delcells", "p": m.path(s), "name": n}, "delete_derived_cells(refused)")
        s, n = rng.choice(own)
        self.emit({"op": "delcells", "p": m.path(s), "name": n}, "delete_cells" + ("_in_a_base" if m.subs(s) else ""))
        return True

    def e_rencells(self):
        rng, m = self.rng, self.m
        own = [(s, n) for s in m.sp for n in m.sp[s]["cells"]
               if not any(n in m.sp[b]["cells"] for b in m.lin(s)[1:])]
        if not own:
            return False
        s, n = rng.choice(own)
        free = [x for x in self.free_cells_names(s, rank_of(n)) if arity_of(x) == arity_of(n)]
        if not free:
            return False
        self.emit({"op": "rencells", "p": m.path(s), "name": n, "to": rng.choice(free)}, "rename_cells" + ("_in_a_base" if m.subs(s) else ""))
        return True

    def ref_blocked(self, s, n):
        """a sub space has the name already, defined there or derived from another base: new_ref in the base is refused"""
        if self.m.vis_refs(s).get(n, ("G",))[0] != "G":
            return False            # the space derives the name already: the assignment overrides it (change_ref)
        return any(self.m.vis_refs(t).get(n, ("G",))[0] != "G" for t in self.m.subs(s))

    def space_value(self, s):
        """a space a reference of [s] (None: the model) may hold: outside the tree of s and not above it"""
        m = self.m
        bad = set(m.tree(s)) | set(m.ancestors(s)) if s is not None else set()
        c = [t for t in m.sp if t not in bad]
        c = c + [t for t in c if m.sp[t]["bases"]] * 2          # sub spaces (their references are derived) preferred
        return self.rng.choice(c) if c else None

    def e_setref(self):
        rng, m = self.rng, self.m
        based = [t for t in m.sp if m.subs(t)]
        s = rng.choice(based) if based and rng.random() < 0.4 else rng.choice(self.spaces())
        own = m.sp[s]["refs"]
        r = rng.random()
        if own and r < 0.55:
            n = rng.choice(sorted(own))
            if own[n][0] == "int":
                v, kind = ["int", rng.randint(0, 9)], "change_ref"
            else:
                t = self.space_value(s)
                if t is None:
                    return False
                v, kind = ["space", m.path(t)], "change_space_ref"
            if n in m.grefs:
                kind += "_shadowing_a_model_ref"
            self.emit({"op": "setref", "p": m.path(s), "name": n, "v": v}, kind + ("_in_a_base" if m.subs(s) else ""))
            return True
        vis = m.vis_refs(s)
        if r < 0.8:
            free = [n for n in INT_REFS if n not in own]
            if not free:
                return False
            n = rng.choice(free)
            if self.ref_blocked(s, n):
                if rng.random() < 0.85:
                    return False
                return self.refused({"op": "setref", "p": m.path(s), "name": n, "v": ["int", rng.randint(0, 9)]}, "new_ref_a_sub_space_defines(refused)")
            kind = "override_derived_ref" if n in vis else "new_ref"
            self.emit({"op": "setref", "p": m.path(s), "name": n, "v": ["int", rng.randint(0, 9)]}, kind + ("_in_a_base" if m.subs(s) else ""))
            return True
        free = [n for n in SPACE_REFS if n not in own]
        t = self.space_value(s)
        if not free or t is None:
            return False
        n = rng.choice(free)
        if self.ref_blocked(s, n):
            if rng.random() < 0.85:
                return False
            return self.refused({"op": "setref", "p": m.path(s), "name": n, "v": ["space", m.path(t)]}, "new_ref_a_sub_space_defines(refused)")
        self.emit({"op": "setref", "p": m.path(s), "name": n, "v": ["space", m.path(t)]},
                  ("override_derived_space_ref" if n in vis else "new_space_ref") + ("_in_a_base" if m.subs(s) else ""))
        return True

    def e_shadow(self):
        rng, m = self.rng, self.m
        if not m.grefs:
            return False
        cands = [(s, n) for s in m.sp for n in m.grefs if n not in m.sp[s]["refs"] and m.vis_refs(s)[n][0] == "G" and not self.ref_blocked(s, n)]
        if not cands:
            return False
        s, n = rng.choice(cands)
        if m.grefs[n][0] == "int":
            v = ["int", rng.randint(20, 29)]
        else:
            t = self.space_value(s)
            if t is None:
                return False
            v = ["space", m.path(t)]
        self.emit({"op": "setref", "p": m.path(s), "name": n, "v": v},
                  ("shadow_model_ref" if v[0] == "int" else "shadow_model_space_ref") + ("_in_a_base" if m.subs(s) else ""))
        return True

    def e_delref(self):
        rng, m = self.rng, self.m
        own = [(s, n) for s in m.sp for n in m.sp[s]["refs"]]
        if not own:
            return False
        sh = [(s, n) for s, n in own if n in m.grefs]
        s, n = rng.choice(sh) if sh and rng.random() < 0.7 else rng.choice(own)
        kind = "unshadow_model_ref" if n in m.grefs else ("delete_ref" if m.sp[s]["refs"][n][0] == "int" else "delete_space_ref")
        if any(n in m.sp[b]["refs"] for b in m.lin(s)[1:]):
            kind = "delete_overriding_ref"
        self.emit({"op": "delref", "p": m.path(s), "name": n}, kind + ("_in_a_base" if m.subs(s) else ""))
        return True

    def e_gref(self):
        rng, m = self.rng, self.m
        r = rng.random()
        if m.grefs and r < 0.2:
            n = rng.choice(sorted(m.grefs))
            self.emit({"op": "delref", "p": [], "name": n}, "delete_model_ref" if m.grefs[n][0] == "int" else "delete_model_space_ref")
            return True
        if r < 0.85 and m.grefs:
            n = rng.choice(sorted(m.grefs))
            if m.grefs[n][0] == "int":
                self.emit({"op": "setref", "p": [], "name": n, "v": ["int", rng.randint(0, 9)]}, "change_model_ref")
            else:
                t = self.space_value(None)
                if t is None:
                    return False
                self.emit({"op": "setref", "p": [], "name": n, "v": ["space", m.path(t)]}, "change_model_space_ref")
            return True
        free = [n for n in GLOBALS + [GLOBAL_SPACE_REF] if n not in m.grefs and not any(n in d["refs"] for d in m.sp.values())]
        if not free:
            return False
        n = rng.choice(free)
        if n == GLOBAL_SPACE_REF:
            t = self.space_value(None)
            if t is None:
                return False
            self.emit({"op": "setref", "p": [], "name": n, "v": ["space", m.path(t)]}, "new_model_space_ref")
        else:
            self.emit({"op": "setref", "p": [], "name": n, "v": ["int", rng.randint(0, 9)]}, "new_model_ref")
        return True

    def base_candidates(self, s):
        m = self.m
        bad = set(m.lin(s)) | set(m.tree(s)) | set(m.ancestors(s))
        return [t for t in m.sp if t not in bad and s not in m.lin(t) and not (set(m.tree(t)) & {s})]

    def w2(self, s, newbases):
        """C02_wide_2 is repaired in /repo: always False (the former trigger is generated).  Former predicate: through the new bases [s] or a sub space of it comes to derive a reference whose
        name is a model-level reference it saw so far (the derived one shadows it), and some formula reads that name by
        an attribute path"""
        return False
        m = self.m
        read = set()
        for d in m.sp.values():
            for c in d["cells"].values():
                read |= {a[3] for a in c["atoms"] if a[0] == "attr"}
            if d["pf"]:
                read |= {a[3] for a in d["pf"]["atoms"] if a[0] == "attr"}
        names = {n for b in newbases for q in m.lin(b) for n in m.sp[q]["refs"] if n in m.grefs and n in read}
        for x in [s] + m.subs(s):
            for n in names:
                if m.vis_refs(x)[n][0] == "G":
                    return True
        return False

    def e_addbases(self):
        rng, m = self.rng, self.m
        order = self.spaces()
        rng.shuffle(order)
        for s in order:
            c = self.base_candidates(s)
            if c:
                b = [rng.choice(c)]
                if len(c) > 1 and rng.random() < 0.2:
                    b2 = rng.choice([x for x in c if x != b[0]])
                    if b2 not in m.lin(b[0]) and b[0] not in m.lin(b2):
                        b.append(b2)
                dia = any(set(m.lin(x)[1:]) & set(m.lin(s)[1:]) for x in b) or (len(b) > 1 and set(m.lin(b[0])) & set(m.lin(b[1])))
                op = {"op": "addbases", "p": m.path(s), "bases": [m.path(x) for x in b]}
                if not m.mro_ok({s: m.sp[s]["bases"] + b}):
                    if rng.random() < 0.8:
                        continue
                    return self.refused(op, "add_bases_without_a_linearisation(refused)")
                if self.w2(s, b):
                    self.notes["not_drawn:C02_wide_2:add_bases_deriving_a_reference_that_shadows_a_model_level_one_read_by_attribute_path"] += 1
                    continue
                self.emit(op, "add_bases" + ("_diamond" if dia else "") + ("_to_a_base" if m.subs(s) else ""))
                return True
        return False

    def reader_of(self, x, n):
        """make sure some cells outside [x] reads `O.n` through a space reference O -> x, and holds a value"""
        rng, m = self.rng, self.m
        holders = [h for h in m.sp if h not in m.tree(x) and x not in m.tree(h) and x not in m.lin(h) and h not in m.lin(x)]
        if not holders:
            return
        have = [(h, o) for h in holders for o, (q, v) in m.vis_refs(h).items() if m.space_of(v) == x]
        if have and rng.random() < 0.8:
            h, o = rng.choice(have)
        else:
            h = rng.choice(holders)
            free = [o for o in SPACE_REFS if o not in m.sp[h]["refs"] and not self.ref_blocked(h, o)] or \
                   [o for o in SPACE_REFS if o in m.sp[h]["refs"]]
            if not free:
                return
            o = rng.choice(free)
            self.emit({"op": "setref", "p": m.path(h), "name": o, "v": ["space", m.path(x)]},
                      "change_space_ref" if o in m.sp[h]["refs"] else "new_space_ref")
        names = [c for c, (q, cc) in m.vis_cells(h).items() if any(a[0] == "attr" and a[1] == o and not a[2] and a[3] == n for a in cc["atoms"])]
        if not names:
            free = self.free_cells_names(h)
            if not free:
                return
            c = rng.choice(free)
            f, atoms = self.gen_formula(h, c)
            body = f.split(": ", 1)[1]
            f = f.split(": ", 1)[0] + ": %s.%s + (%s)" % (o, n, body)
            if "None if" in body or "//" in body:
                f, atoms = f.split(": ", 1)[0] + ": %s.%s + 1" % (o, n), []
            self.emit({"op": "newcells", "p": m.path(h), "name": c, "f": f, "atoms": [["attr", o, None, n]] + atoms}, "new_cells")
            names = [c]
        c = rng.choice(names)
        for a in ([rng.choice(GRID)], GRID[:2])[rng.random() < 0.5] if arity_of(c) else [None]:
            self.ops.append({"op": "eval", "t": {"p": m.path(h)}, "name": c, "args": [a] if arity_of(c) else []})

    def e_rederive(self):
        """head for a re-derivation: a space derives a reference that two of its ancestors define with different values;
        take the first definer away (remove_bases / delete the reference there / delete that space)"""
        rng, m = self.rng, self.m
        cands = []
        for x in m.sp:
            L = m.lin(x)[1:]
            for n in sorted({n for q in L for n in m.sp[q]["refs"]}):
                if n in m.sp[x]["refs"]:
                    continue
                defs = [q for q in L if n in m.sp[q]["refs"]]
                if len(defs) >= 2 and m.sp[defs[0]]["refs"][n] != m.sp[defs[1]]["refs"][n]:
                    cands.append((x, n, defs))
        if not cands:
            return False
        x, n, defs = rng.choice(cands)
        first = defs[0]
        if rng.random() < 0.6:
            self.reader_of(x, n)
        r = rng.random()
        if r < 0.6:
            bs = [b for b in m.sp[x]["bases"] if first in m.lin(b) and not all(d in m.lin(b) for d in defs)]
            if bs:
                b = rng.choice(bs)
                if m.mro_ok({x: [y for y in m.sp[x]["bases"] if y != b]}):
                    self.emit({"op": "rmbases", "p": m.path(x), "bases": [m.path(b)]}, "remove_bases_rederiving_a_ref_from_another_base")
                    return True
        if r < 0.85:
            self.emit({"op": "delref", "p": m.path(first), "name": n}, "delete_ref_rederived_from_another_base_in_a_sub_space")
            return True
        if Mirror_without(m, set(m.tree(first))) and not self.w1(first, "del") and len(m.sp) > 2:
            self.emit({"op": "delspace", "p": m.path(first)}, "delete_base_space_rederiving_a_ref_from_another_base")
            return True
        return False

    def e_rmbases(self):
        rng, m = self.rng, self.m
        c = [s for s in m.sp if m.sp[s]["bases"]]
        if not c:
            return False
        s = rng.choice(c)
        b = rng.choice(m.sp[s]["bases"])
        if not m.mro_ok({s: [x for x in m.sp[s]["bases"] if x != b]}):
            return False
        self.emit({"op": "rmbases", "p": m.path(s), "bases": [m.path(b)]},
                  "remove_bases" + ("_one_of_several" if len(m.sp[s]["bases"]) > 1 else "") + ("_from_a_base" if m.subs(s) else ""))
        return True

    def e_newspace(self):
        rng, m = self.rng, self.m
        r = rng.random()
        tops = [s for s in m.sp if m.sp[s]["parent"] is None]
        if r < 0.45 and tops:
            par = rng.choice(tops)
            used = {m.sp[c]["name"] for c in m.children(par)}
            free = [n for n in CHILDREN + EXTRA_CHILDREN if n not in used and (tuple(m.path(par)), n) not in self.used_names]
            if not free:
                return False
            op = {"op": "newspace", "p": m.path(par), "name": rng.choice(free)}
            kind = "new_child_space"
        else:
            free = self.free_top()
            if not free:
                return False
            op = {"op": "newspace", "p": [], "name": rng.choice(free)}
            kind = "new_space"
            if rng.random() < 0.4 and tops:
                b = rng.choice(tops)
                op["bases"] = [m.path(b)]
                kind = "new_space_with_bases"
            if not any(d["pf"] for d in m.sp.values()) and rng.random() < 0.5:
                pfd = self.gen_pf(None)
                op["pf"], op["pfd"] = pfd["src"], pfd
                kind += "_parametrised"
        self.emit(op, kind)
        # something to look at in it
        new = self.sid(op["p"] + [op["name"]])
        for _ in range(rng.choice([1, 1, 2])):
            free = self.free_cells_names(new)
            if free:
                n = rng.choice(free)
                f, atoms = self.gen_formula(new, n)
                self.emit({"op": "newcells", "p": m.path(new), "name": n, "f": f, "atoms": atoms}, "new_cells")
        return True

    def w1(self, S, mode):
        """trigger of finding C02_wide_1: some formula reads a MODEL-LEVEL reference by an attribute path through a space
        (`O.g`, `O.Ch.g`) that the edit deletes (mode "del": the space reached, or the child on the path, lies in the
        deleted tree) or whose child on the path the edit renames (mode "ren"; there also: calls a cells that was ever
        uncached through that child, `O.Ch.f(1)`).  Conservative: every reference named O
        in the linearisation of the evaluating space counts, whichever one the MRO picks.
        C02_wide_1 is repaired in /repo: always False (the former trigger is generated)."""
        return False
        m = self.m
        tree = set(m.tree(S))
        for E, d in m.sp.items():
            forms = [v[1]["atoms"] for v in m.vis_cells(E).values()]
            if d["pf"]:
                forms.append(d["pf"]["atoms"])
            for atoms in forms:
                for a in atoms:
                    if mode == "ren" and a[0] == "xcall" and a[2] and a[3] in self.ever_uncached:
                        pass        # an uncached cells called through the child: no link of its own either
                    elif a[0] != "attr" or a[3] not in m.grefs:
                        continue
                    vals = [m.sp[q]["refs"][a[1]] for q in m.lin(E) if a[1] in m.sp[q]["refs"]]
                    if a[1] in m.grefs:
                        vals.append(m.grefs[a[1]])
                    for v in vals:
                        T = m.space_of(v)
                        if T is None:
                            continue
                        T2 = m.child(T, a[2]) if a[2] else T
                        if mode == "del" and (T in tree or T2 in tree):
                            return True
                        if mode == "ren" and a[2] and T2 == S:
                            return True
        return False

    def e_delspace(self):
        rng, m = self.rng, self.m
        if len([s for s in m.sp if m.sp[s]["parent"] is None]) <= 2 and rng.random() < 0.7:
            c = [s for s in m.sp if m.sp[s]["parent"] is not None]
        else:
            c = self.spaces()
        if not c:
            return False
        s = rng.choice(c)
        gone = set(m.tree(s))
        if not Mirror_without(m, gone):
            return False
        if self.w1(s, "del"):
            self.notes["not_drawn:C02_wide_1:delete_a_space_a_model_level_reference_was_read_through_by_attribute_path"] += 1
            return False
        tree = set(m.tree(s))
        kind = "delete_child_space" if m.sp[s]["parent"] is not None else "delete_space"
        if any(set(d["bases"]) & tree for t, d in m.sp.items() if t not in tree):
            kind += "_that_is_a_base"
        if any(m.space_of(v) in tree for t, d in m.sp.items() if t not in tree for v in d["refs"].values()) or \
                any(m.space_of(v) in tree for v in m.grefs.values()):
            kind += "_held_by_a_space_ref"
        if m.sp[s]["pf"]:
            kind += "_parametrised"
        self.emit({"op": "delspace", "p": m.path(s)}, kind)
        return True

    def e_renspace(self):
        rng, m = self.rng, self.m
        s = rng.choice(self.spaces())
        if m.sp[s]["parent"] is None:
            free = self.free_top()
        else:
            used = {m.sp[c]["name"] for c in m.children(m.sp[s]["parent"])}
            free = [n for n in CHILDREN + EXTRA_CHILDREN if n not in used]
        if not free:
            return False
        if self.w1(s, "ren"):
            self.notes["not_drawn:C02_wide_1:rename_a_child_space_a_model_level_reference_was_read_through_by_attribute_path"] += 1
            return False
        kind = "rename_child_space" if m.sp[s]["parent"] is not None else "rename_space"
        if m.subs(s):
            kind += "_that_is_a_base"
        if m.sp[s]["pf"]:
            kind += "_parametrised"
        self.emit({"op": "renspace", "p": m.path(s), "name": rng.choice(free)}, kind)
        return True

    def e_pf(self):
        rng, m = self.rng, self.m
        ps = [s for s in m.sp if m.sp[s]["pf"]]
        r = rng.random()
        if ps and r < 0.2:
            self.emit({"op": "delpf", "p": m.path(rng.choice(ps))}, "delete_parameter_formula")
            return True
        if ps and r < 0.9:
            s = rng.choice(ps)
            pfd = self.gen_pf(s)
            self.emit({"op": "setpf", "p": m.path(s), "pf": pfd["src"], "pfd": pfd}, "change_parameter_formula:" + pfd["kind"])
            return True
        c = [s for s in m.sp if not m.sp[s]["pf"] and m.param_root(s) is None and not any(m.sp[t]["pf"] for t in m.tree(s))]
        if not c:
            return False
        s = rng.choice(c)
        pfd = self.gen_pf(s)
        self.emit({"op": "setpf", "p": m.path(s), "pf": pfd["src"], "pfd": pfd}, "new_parameter_formula:" + pfd["kind"])
        return True

    def e_flag(self):
        rng, m = self.rng, self.m
        if rng.random() < 0.2:
            s = rng.choice(self.spaces())
            v = rng.choice([True, False])
            # C02_wide_4 is repaired in /repo: switching allow_none off after it was on is generated
            self.none_allowed = self.none_allowed or v
            self.emit({"op": "sflag", "p": m.path(s), "v": v}, "space_allow_none")
            return True
        own = [(s, n) for s in m.sp for n in m.sp[s]["cells"]]
        if not own:
            return False
        s, n = rng.choice(own)
        fl = rng.choice(["allow_none", "is_cached", "is_cached"])
        # C02_wide_3 (allow_none of a cells whose copies ItemSpaces hold) is repaired in /repo: generated
        v = rng.choice([True, False, False]) if fl == "is_cached" else rng.choice([True, False])
        if fl == "allow_none":
            self.none_allowed = self.none_allowed or v
        self.emit({"op": "flag", "p": m.path(s), "name": n, "flag": fl, "v": v}, "set_" + fl)
        return True

    def e_items(self):
        rng, m = self.rng, self.m
        ps = [s for s in m.sp if m.sp[s]["pf"]]
        if not ps:
            return False
        s = rng.choice(ps)
        if rng.random() < 0.5:
            self.emit({"op": "clearitems", "p": m.path(s)}, "clear_items")
        else:
            self.emit({"op": "delitem", "p": m.path(s), "key": [rng.choice(KEYS)]}, "delete_ItemSpace")
        return True

    EDITS = [("e_setv", 6), ("e_clearv", 3), ("e_setf", 7), ("e_newcells", 4), ("e_delcells", 3), ("e_rencells", 3), ("e_setref", 11),
             ("e_shadow", 5), ("e_delref", 6), ("e_gref", 6), ("e_addbases", 6), ("e_rmbases", 5), ("e_rederive", 8), ("e_newspace", 3), ("e_delspace", 2),
             ("e_renspace", 3), ("e_pf", 3.5), ("e_flag", 3), ("e_items", 1.5)]

    def edit(self):
        names = [e[0] for e in self.EDITS]
        for _ in range(12):
            e = self.rng.choices(names, [e[1] for e in self.EDITS])[0]
            if not self.m.sp:
                e = "e_newspace"
            if getattr(self, e)():
                return True
        return False

    # ---- evaluations
    def eval_op(self):
        rng, m = self.rng, self.m
        if not m.sp:
            return False
        inpar = [s for s in m.sp if m.param_root(s) is not None]
        if inpar and rng.random() < 0.4:
            s = rng.choice(inpar)
            pr = m.param_root(s)
            t = {"p": m.path(pr), "key": [rng.choice(KEYS)], "sub": m.path(s)[len(m.path(pr)):]}
        else:
            s = rng.choice(self.spaces())
            t = {"p": m.path(s)}
        vc = sorted(m.vis_cells(s))
        if not vc:
            return False
        n = rng.choice(vc)
        self.ops.append({"op": "eval", "t": t, "name": n, "args": [rng.choice(GRID)] if arity_of(n) else []})
        return True

    # ---- the initial world: a prefix of the history like any other edits
    def world(self):
        rng, m = self.rng, self.m
        ntop = rng.choice([2, 3, 3, 4, 4])
        tops = TOPS[:ntop]
        # inheritance among the top-level spaces: chains, fans, two bases, diamonds; about half of the edges are
        # drawn at creation, the others by add_bases once references and cells exist
        shape = rng.choice({2: ["none", "chain", "chain"], 3: ["none", "chain", "fan", "two", "two", "two"],
                            4: ["none", "chain", "fan", "two", "two", "diamond", "diamond", "diamond"]}[ntop])
        edges = {}
        if shape == "chain":
            edges = {tops[i]: [tops[i - 1]] for i in range(1, rng.choice([2, ntop]))}
        elif shape == "fan":
            edges = {t: [tops[0]] for t in tops[1:rng.choice([3, ntop])]}
        elif shape == "two":
            edges = {tops[2]: [tops[0], tops[1]]}
            if ntop >= 4 and rng.random() < 0.5:
                edges[tops[3]] = [tops[2]] if rng.random() < 0.5 else [tops[1], tops[0]]
        elif shape == "diamond":
            edges = {tops[1]: [tops[0]], tops[2]: [tops[0]], tops[3]: [tops[1], tops[2]]}
        # a name that the bases of a two-base space define with different values and the space itself does not
        common = {t: rng.choice(INT_REFS) for t, bs in edges.items() if len(bs) > 1 and rng.random() < 0.8}
        inherit_late = []
        for i, t in enumerate(tops):
            op = {"op": "newspace", "p": [], "name": t}
            b = [[x] for x in edges.get(t, [])]
            if len(b) > 1:
                # (a reference cannot be created in a base once a sub space derives the name from another base: for
                # two bases to define the same name the sub space must inherit after the references exist)
                r = rng.random()
                if r < 0.6:
                    inherit_late.append((t, b))
                elif r < 0.8:
                    op["bases"] = b[:1]
                    inherit_late.append((t, b[1:]))
                else:
                    op["bases"] = b
            elif b:
                if rng.random() < 0.5:
                    op["bases"] = b
                else:
                    inherit_late.append((t, b))
            self.emit(op, "new_space" + ("_with_bases" if op.get("bases") else ""))
            for c in CHILDREN:
                if rng.random() < 0.25:
                    self.emit({"op": "newspace", "p": [t], "name": c}, "new_child_space")
                    self.feats.add("nested_child_space")
        self.feats.add("inheritance_shape:" + (shape if edges else "none"))
        par = None
        if rng.random() < 0.88:
            par = "P"
            self.emit({"op": "newspace", "p": [], "name": "P"}, "new_space")
            if rng.random() < 0.5:
                self.emit({"op": "newspace", "p": ["P"], "name": rng.choice(CHILDREN)}, "new_child_space")
                self.feats.add("child_space_replicated_into_ItemSpaces")
            if rng.random() < 0.35:
                inherit_late.append(("P", [[rng.choice(tops)]]))
                self.feats.add("parametrised_space_with_a_base")
        # references
        for n in GLOBALS:
            if rng.random() < (0.9 if n == "g" else 0.45):
                self.emit({"op": "setref", "p": [], "name": n, "v": ["int", rng.randint(0, 9)]}, "new_model_ref")
        if rng.random() < 0.45:
            self.emit({"op": "setref", "p": [], "name": GLOBAL_SPACE_REF, "v": ["space", m.path(rng.choice(self.spaces()))]}, "new_model_space_ref")
        for s in self.spaces():
            for n in INT_REFS:
                nm = m.sp[s]["name"] if m.sp[s]["parent"] is None else None
                if common.get(nm) == n:
                    continue
                forced = any(common.get(t) == n and nm in bs for t, bs in edges.items())
                if (forced or rng.random() < (0.65 if n == "k" else 0.3)) and not self.ref_blocked(s, n):
                    self.emit({"op": "setref", "p": m.path(s), "name": n, "v": ["int", rng.randint(0, 9) + (10 * len(m.sp[s]["refs"]) + 10 if forced else 0)]},
                              "override_derived_ref" if n in m.vis_refs(s) else "new_ref")
            for n in SPACE_REFS:
                if rng.random() < (0.8 if n == "O1" else 0.25) and not self.ref_blocked(s, n):
                    t = self.space_value(s)
                    if t is not None:
                        self.emit({"op": "setref", "p": m.path(s), "name": n, "v": ["space", m.path(t)]},
                                  "override_derived_space_ref" if n in m.vis_refs(s) else "new_space_ref")
        if par:
            pfd = self.gen_pf(self.sid(["P"]))
            self.emit({"op": "setpf", "p": ["P"], "pf": pfd["src"], "pfd": pfd}, "new_parameter_formula:" + pfd["kind"])
        # cells, by rank so that callees exist
        want = {s: rng.choice([1, 1, 2, 3]) for s in self.spaces()}
        for r in range(RANKS):
            for s in self.spaces():
                if want[s] <= 0 or rng.random() < (0.35 if r < RANKS - 1 else 0.0):
                    continue
                free = self.free_cells_names(s, r)
                if not free:
                    continue
                n = rng.choice(free)
                f, atoms = self.gen_formula(s, n)
                self.emit({"op": "newcells", "p": m.path(s), "name": n, "f": f, "atoms": atoms}, "new_cells" + ("_in_a_base" if m.subs(s) else ""))
                want[s] -= 1
        for t, b in inherit_late:
            s = self.sid([t])
            b = [x for x in b if self.sid(x) in self.base_candidates(s)]
            if b and m.mro_ok({s: m.sp[s]["bases"] + [self.sid(x) for x in b]}) and not self.w2(s, [self.sid(x) for x in b]):
                self.emit({"op": "addbases", "p": [t], "bases": b}, "add_bases")
        if any(d["bases"] for d in m.sp.values()):
            self.feats.add("inheritance")
        if any(len(set(m.lin(b)[0:]) & set(x for b2 in d["bases"] if b2 != b for x in m.lin(b2))) for d in m.sp.values() for b in d["bases"]):
            self.feats.add("diamond")
        if par:
            self.feats.add("parametrised_space")
            self.feats.add("pf:" + m.sp[self.sid(["P"])]["pf"]["kind"])

    def history(self, nops):
        rng = self.rng
        self.world()
        self.setup = len(self.ops)
        mode = rng.choice(["every_edit", "most_edits", "most_edits", "three_points"])
        sweeps = 0
        # warm the caches before the first edit
        for _ in range(rng.choice([2, 4, 6])):
            self.eval_op()
        if rng.random() < 0.6:
            self.ops.append({"op": "sweep"})
            sweeps += 1
        n = 0
        nedits = 0
        while n < nops:
            n += 1
            if rng.random() < 0.5:
                self.eval_op()
                continue
            if not self.edit():
                continue
            nedits += 1
            for _ in range(rng.choice([0, 0, 1, 2])):
                self.eval_op()
                n += 1
            if mode == "every_edit" or (mode == "most_edits" and rng.random() < 0.5):
                self.ops.append({"op": "sweep"})
                sweeps += 1
        self.ops.append({"op": "sweep"})
        sweeps += 1
        # at least three comparison points (and the end): put the missing ones after random edits
        edits_at = [i for i, op in enumerate(self.ops) if i >= self.setup and is_edit(op)
                    and (i + 1 >= len(self.ops) or self.ops[i + 1]["op"] != "sweep")]
        rng.shuffle(edits_at)
        for i in sorted(edits_at[:max(0, 4 - sweeps)], reverse=True):
            self.ops.insert(i + 1, {"op": "sweep"})
            sweeps += 1
        return mode


def gen_case(rng, nops=None):
    g = Gen(rng)
    mode = g.history(nops or rng.choice([12, 16, 20, 26]))
    return {"wide": True, "ops": g.ops, "setup": g.setup, "mode": mode, "features": sorted(g.feats),
            "kinds": dict(g.kinds), "notes": dict(g.notes)}


def strip(op):
    """the operation as stored in payloads (without the generator's book-keeping)"""
    return {k: v for k, v in op.items() if k not in ("paths", "atoms", "pfd", "kind")}
