"""Shared machinery of the checks C11 and C12 (Names layer).

* Mirror: a Python transcription of coq/theories/Names/Model.v (the IDEAL model).  It is used ONLY to steer
  the generator (which operations are applicable, which arguments are rejected for which reason) and to
  evaluate the triggers of the recorded defects.  It is never an oracle: the tie (T) is evaluated by coqc on
  the Gallina model, the property oracles (P) look at the implementation's observations only.
* Gen: seeded generator of histories (names from a pool of 4 + the invalid names, every operation with
  every applicable invalid argument).
* oracles: C11 (a raising call leaves the description unchanged; after every ACCEPTED call the inheritance
  structure is well-formed - wf_oracle, clauses WF_CLAUSES; base relation acyclic, linearisable; names valid)
  and C12 (pairwise disjoint containers, dir() == containers, precedence, self-checks).
* Gen.override_history: the scenario "rename around an override" (base cells, sub space, override, sub spaces
  below, RenameCells on the override / the base / a plain derived cells with free, taken, invalid names).
* shrink / probe: a failing history is minimised on the implementation; when the correspondence (T) breaks and
  (P) is silent, follow-up operations around the disagreeing histories are run through the (P) oracle.
* emit: histories + observations as Coq terms for Names/Tie.v.
"""
import os, json, copy, glob, re, keyword
import networkx as nx
import fw
from fw import cz, cnat, cbool, cstr, clist, ctuple, copt

(ACCEPTED, NOSUCHSPACE, NOSUCHMEMBER, INVALIDNAME, NAMEINUSE, CYCLIC, NOMRO, NAMECONFLICT, NOTABASE,
 ISDERIVED, HASBASES, BADFORMULA, NONEVALUE, NOTALLOWED) = range(14)
FUEL = 50
OTHER = 99
CODE_NAMES = ["Accepted", "NoSuchSpace", "NoSuchMember", "InvalidName", "NameInUse", "Cyclic", "NoMro", "NameConflict",
              "NotABase", "IsDerived", "HasBases", "BadFormula", "NoneValue", "NotAllowed"]
OPS = ["NewSpace", "NewCells", "SetFormula", "RenameCells", "RenameSpace", "AddBases", "RemoveBases", "SetAttr", "DelAttr", "SetParams"]

POOL = ["a", "b", "c", "d"]
INVALID = ["", "1a", "for", "_x", "a b", "a.b", "a\n", "b\u00b2"]     # the last two: seeded/C11_r4 (a pattern with $ and \w)
SYS = ["_self", "_space", "_model"]


def is_valid_name(s):
    """transcription of Names/Model.v is_valid_name (ASCII)"""
    if not s or any(ord(c) >= 128 for c in s):
        return False
    if not (s[0].isalpha() or s[0] == "_"):
        return False
    if not all(c.isalnum() or c == "_" for c in s):
        return False
    return s not in keyword.kwlist and not s.startswith("_")


def is_param_name(s):
    return bool(s) and all(ord(c) < 128 for c in s) and (s[0].isalpha() or s[0] == "_") and \
        all(c.isalnum() or c == "_" for c in s) and s not in keyword.kwlist


def c3(g, n, depth=0):
    """SpaceGraph.get_mro on {node: [bases]}; None = inconsistent / cyclic"""
    if depth > len(g) + 1:
        return None
    bs = g.get(n, [])
    seqs = []
    for b in bs:
        l = c3(g, b, depth + 1)
        if l is None:
            return None
        seqs.append(list(l))
    seqs.append(list(bs))
    res = []
    while True:
        ne = [s for s in seqs if s]
        if not ne:
            return [n] + res
        cand = None
        for s in ne:
            c = s[0]
            if not any(c in t[1:] for t in ne):
                cand = c
                break
        if cand is None:
            return None
        res.append(cand)
        for s in ne:
            if s[0] == cand:
                del s[0]
        seqs = ne


def add_base(bs, b):
    return [x for x in bs if x != b] + [b]


def is_prefix(p, q):
    return len(p) <= len(q) and tuple(q[:len(p)]) == tuple(p)


def reprefix(p, p2, q):
    return tuple(p2) + tuple(q[len(p):]) if is_prefix(p, q) else tuple(q)


# defects repaired in /repo (fix: commits aca8b22 0750142 f003354 85f4db6): their triggers are generated again
REPAIRED = {"D11", "D12", "N4", "N11", "N10", "N1", "N2", "N3", "N6", "D2b", "D23", "N7", "D3", "D34", "N8", "N5", "D13"}


class Mirror:
    def __init__(self):
        self.sp = {}         # path(tuple) -> {"cells": {n: fml}, "refs": {n: v}, "bases": [paths], "namer": k}
        self.grefs = {}
        self.adj = nx.DiGraph()    # replays the implementation's add_edge / remove_edge order (D3's edge_bfs)
        self.inputs = set()        # (path, cells name) that MAY hold an input value (over-approximation, for D12's trigger)
        self._mro = {}

    def clone(self):
        m = Mirror()
        m.sp = copy.deepcopy(self.sp)
        m.grefs = dict(self.grefs)
        m.adj = self.adj.copy()
        m.inputs = set(self.inputs)
        return m

    # ---- views
    def graph(self):
        return {p: list(s["bases"]) for p, s in self.sp.items()}

    def mro(self, p):
        key = p
        if key not in self._mro:
            self._mro[key] = c3(self.graph(), p)
        return self._mro[key]

    def touch(self):
        self._mro = {}

    def ancs(self, p):
        l = self.mro(p)
        return l[1:] if l else []

    def subs(self, p):
        return [q for q in self.sp if p in self.ancs(q)]

    def all_mro_ok(self):
        return all(self.mro(p) is not None for p in self.sp)

    def def_cells(self, p, n):
        return p in self.sp and n in self.sp[p]["cells"]

    def def_ref(self, p, n):
        return p in self.sp and n in self.sp[p]["refs"]

    def has_cells(self, p, n):
        return self.def_cells(p, n) or any(self.def_cells(b, n) for b in self.ancs(p))

    def has_ref(self, p, n):
        return self.def_ref(p, n) or any(self.def_ref(b, n) for b in self.ancs(p))

    def has_child(self, p, n):
        return tuple(p) + (n,) in self.sp

    def has_gref(self, n):
        return n in self.grefs or n == "__builtins__"

    def in_namespace(self, p, n):
        return self.has_cells(p, n) or self.has_ref(p, n) or n in SYS or self.has_gref(n) or self.has_child(p, n)

    def in_model_ns(self, n):
        return self.has_child((), n) or self.has_gref(n)

    def cells_names(self, p):
        out = list(self.sp[p]["cells"])
        for b in self.ancs(p):
            out += [n for n in self.sp[b]["cells"] if n not in out]
        return out

    def refs_names(self, p):
        out = list(self.sp[p]["refs"])
        for b in self.ancs(p):
            out += [n for n in self.sp[b]["refs"] if n not in out]
        return out

    def child_names(self, p):
        return [q[-1] for q in self.sp if len(q) == len(p) + 1 and q[:-1] == tuple(p)]

    def disjoint_at(self, p):
        c, r, s = set(self.cells_names(p)), set(self.refs_names(p)), set(self.child_names(p))
        return not (c & r or c & s or r & s)

    def all_disjoint(self):
        return all(self.disjoint_at(p) for p in self.sp)

    def can_add_cells(self, s, n):
        return not self.in_namespace(s, n) and all(not self.has_ref(d, n) and not self.has_child(d, n) for d in self.subs(s))

    def can_add_space(self, parent, n):
        if not parent:
            return not self.in_model_ns(n)
        return not self.in_namespace(parent, n) and all(not self.has_cells(d, n) and not self.has_ref(d, n) for d in self.subs(parent))

    def can_add_ref(self, s, n):
        return not self.has_cells(s, n) and not self.has_child(s, n) and \
            all(not (self.has_cells(d, n) or self.has_ref(d, n) or self.has_child(d, n)) for d in self.subs(s))

    def can_rename_cells(self, s, n):
        return not self.in_namespace(s, n) and \
            all(not (self.has_cells(d, n) or self.has_ref(d, n) or self.has_child(d, n)) for d in self.subs(s))

    # ---- ideal step: returns (code, new mirror or None (= unchanged)); self is never modified
    def plan(self, op):
        k = op[0]
        f = getattr(self, "_" + k)
        return f(*[tuple(x) if i == 0 else x for i, x in enumerate(op[1:])])

    def _NewSpaceBad(self, parent, name, bases):
        """new_space(..., formula=<not a function>): refused for the reason a plain new_space would be refused, else
        because of the formula; nothing changes.  Not an operation of Names/Model.v: it is left out of the Coq term
        (a refused operation changes nothing there either) and judged by the (P) clause 'rejected => unchanged'."""
        code, _ = self._NewSpace(parent, name, bases)
        return (BADFORMULA if code == ACCEPTED else code), None

    def _NewSpaceRefs(self, parent, name, bases, refs):
        """new_space(name, bases=..., refs={...}): the creation followed by the assignment of every reference, as ONE
        operation: refused (nothing changes) when the creation or any of the assignments would be refused.
        Not an operation of Names/Model.v: histories with it are (P)-only (C12 'wide' class)."""
        code, m = self._NewSpace(parent, name, bases)
        if code != ACCEPTED:
            return code, None
        p = tuple(parent) + (name,)
        for n, v in refs:
            code, m2 = m._SetAttr(p, n, v)
            if code != ACCEPTED:
                return code, None
            m = m2
        return ACCEPTED, m

    def _new(self):
        m = self.clone()
        m.touch()
        return m

    def _NewSpace(self, parent, name, bases):
        bases = [tuple(b) for b in bases]
        if parent and parent not in self.sp:
            return NOSUCHSPACE, None
        if any(b not in self.sp for b in bases):
            return NOSUCHSPACE, None
        if not self.can_add_space(parent, name):
            return NAMEINUSE, None
        if not is_valid_name(name):
            return INVALIDNAME, None
        p = tuple(parent) + (name,)
        bs = []
        for b in bases:
            bs = add_base(bs, b)
        m = self._new()
        m.sp[p] = {"cells": {}, "refs": {}, "bases": bs, "namer": 0, "params": None}
        if not m.all_mro_ok():
            return NOMRO, None
        if not m.all_disjoint():
            return NAMECONFLICT, None
        m.adj.add_node(p)
        for b in bases:
            m.adj.add_edge(b, p)
        m.adj = m.adj.copy()
        return ACCEPTED, m

    def _auto(self, s, fm):
        k = self.sp[s]["namer"]
        while True:
            k += 1
            if not self.in_namespace(s, "Cells%d" % k):
                break
        n = "Cells%d" % k
        if not self.can_add_cells(s, n):
            return NAMEINUSE, None
        m = self._new()
        m.sp[s]["cells"][n] = fm
        m.sp[s]["namer"] = k
        return ACCEPTED, m

    def _unnamed(self, s, farg):
        if farg[0] == "bad":
            return BADFORMULA, None
        if farg[0] == "def":
            fn = farg[1]
            if is_valid_name(fn):
                if not self.can_add_cells(s, fn):
                    return NAMEINUSE, None
                m = self._new()
                m.sp[s]["cells"][fn] = ["def", farg[2]]
                return ACCEPTED, m
            return self._auto(s, ["def", farg[2]])
        return self._auto(s, fml_of(farg))

    def _NewCells(self, s, name, farg):
        if s not in self.sp:
            return NOSUCHSPACE, None
        if name is not None and not self.can_add_cells(s, name):
            return NAMEINUSE, None
        if name is not None and is_valid_name(name):
            if farg[0] == "bad":
                return BADFORMULA, None
            m = self._new()
            m.sp[s]["cells"][name] = fml_of(farg)
            return ACCEPTED, m
        return self._unnamed(s, farg)

    def _SetFormula(self, s, n, farg):
        if s not in self.sp:
            return NOSUCHSPACE, None
        if not self.has_cells(s, n):
            return NOSUCHMEMBER, None
        if farg[0] == "bad":
            return BADFORMULA, None
        m = self._new()
        m.sp[s]["cells"][n] = fml_of(farg)
        return ACCEPTED, m

    def _RenameCells(self, s, n, new):
        if s not in self.sp:
            return NOSUCHSPACE, None
        if not self.has_cells(s, n):
            return NOSUCHMEMBER, None
        if not is_valid_name(new):
            return INVALIDNAME, None
        if not self.can_rename_cells(s, new):
            return NAMEINUSE, None
        if any(self.def_cells(b, n) for b in self.ancs(s)):
            return HASBASES, None
        m = self._new()
        for d in [s] + self.subs(s):
            c = m.sp[d]["cells"]
            if n in c:
                m.sp[d]["cells"] = {(new if k == n else k): v for k, v in c.items()}
            if (d, n) in m.inputs:
                m.inputs.add((d, new))
        return ACCEPTED, m

    def _RenameSpace(self, p, new):
        if not p or p not in self.sp:
            return NOSUCHSPACE, None
        parent = p[:-1]
        if not is_valid_name(new):
            return INVALIDNAME, None
        if not self.can_add_space(parent, new):
            return NAMEINUSE, None
        p2 = parent + (new,)
        m = self._new()
        m.sp = {}
        for q, s in self.sp.items():
            s2 = copy.deepcopy(s)
            s2["bases"] = [reprefix(p, p2, b) for b in s["bases"]]
            m.sp[reprefix(p, p2, q)] = s2
        # rename_space relabels the nodes of the manager's graph IN PLACE (nx.relabel_nodes(..., copy=False): a
        # relabelled node moves to the end of the node order and its edges to the end of the adjacency lists, which
        # is the order D3's edge_bfs follows later)
        m.adj = self.adj.copy()
        nx.relabel_nodes(m.adj, {q: reprefix(p, p2, q) for q in self.adj.nodes if is_prefix(p, q)}, copy=False)
        m.inputs = {(reprefix(p, p2, q), n) for q, n in self.inputs}
        return ACCEPTED, m

    def _AddBases(self, s, bs):
        bs = [tuple(b) for b in bs]
        if s not in self.sp or any(b not in self.sp for b in bs):
            return NOSUCHSPACE, None
        if any(b == s or s in self.ancs(b) for b in bs):
            return CYCLIC, None
        m = self._new()
        cur = list(self.sp[s]["bases"])
        for b in bs:
            cur = add_base(cur, b)
        m.sp[s]["bases"] = cur
        if not m.all_mro_ok():
            return NOMRO, None
        if not m.all_disjoint():
            return NAMECONFLICT, None
        for b in bs:
            m.adj.add_edge(b, s)
        m.adj = m.adj.copy()
        return ACCEPTED, m

    def _RemoveBases(self, s, bs):
        bs = [tuple(b) for b in bs]
        if s not in self.sp or any(b not in self.sp for b in bs):
            return NOSUCHSPACE, None
        cur = list(self.sp[s]["bases"])
        for b in bs:
            if b not in cur:
                return NOTABASE, None
            cur.remove(b)
        m = self._new()
        m.sp[s]["bases"] = cur
        if not m.all_mro_ok():
            return NOMRO, None
        for b in bs:
            m.adj.remove_edge(b, s)
        m.adj = m.adj.copy()
        return ACCEPTED, m

    def _del_space(self, p):
        m = self._new()
        m.sp = {}
        for q, s in self.sp.items():
            if is_prefix(p, q):
                continue
            s2 = copy.deepcopy(s)
            s2["bases"] = [b for b in s["bases"] if not is_prefix(p, b)]
            m.sp[q] = s2
        if not m.all_mro_ok():
            return NOMRO, None
        m.adj.remove_nodes_from([q for q in self.adj.nodes if is_prefix(p, q)])
        m.adj = m.adj.copy()
        return ACCEPTED, m

    def _SetAttr(self, s, n, v):
        if not s:
            if self.has_child((), n):
                return NOTALLOWED, None
            m = self._new()
            m.grefs[n] = v
            return ACCEPTED, m
        if s not in self.sp:
            return NOSUCHSPACE, None
        if not is_valid_name(n):
            return INVALIDNAME, None

        def put():
            m = self._new()
            m.sp[s]["refs"][n] = v
            return ACCEPTED, m
        if self.has_ref(s, n):
            return put()
        if self.has_gref(n):
            return put() if self.can_add_ref(s, n) else (NAMEINUSE, None)
        if self.has_cells(s, n):
            if v is None:
                return NONEVALUE, None
            m = self._new()
            m.inputs.add((s, n))
            return ACCEPTED, m
        if self.has_child(s, n):
            return NOTALLOWED, None
        return put() if self.can_add_ref(s, n) else (NAMEINUSE, None)

    def _DelAttr(self, s, n):
        if not s:
            if self.has_child((), n):
                return self._del_space((n,))
            if n in self.grefs:
                m = self._new()
                del m.grefs[n]
                return ACCEPTED, m
            return NOSUCHMEMBER, None
        if s not in self.sp:
            return NOSUCHSPACE, None
        if self.has_cells(s, n):
            if not self.def_cells(s, n):
                return ISDERIVED, None
            m = self._new()
            del m.sp[s]["cells"][n]
            return ACCEPTED, m
        if self.has_child(s, n):
            return self._del_space(tuple(s) + (n,))
        if self.has_ref(s, n):
            if not self.def_ref(s, n):
                return ISDERIVED, None
            m = self._new()
            del m.sp[s]["refs"][n]
            return ACCEPTED, m
        if n in SYS or self.has_gref(n):
            return NOTALLOWED, None
        return NOSUCHMEMBER, None

    def _SetParams(self, s, ps):
        if s not in self.sp:
            return NOSUCHSPACE, None
        ok = all(is_param_name(x) for x in ps) and len(set(ps)) == len(ps)
        if not ok:
            return BADFORMULA, None
        m = self._new()
        m.sp[s]["params"] = list(ps)
        return ACCEPTED, m

    # ---- triggers of the recorded defects: decidable on (ideal state before the op, op, ideal result)
    def triggers(self, op, code, new):
        k = op[0]
        s = tuple(op[1])
        t = []
        if s and s not in self.sp:
            return t

        def first_sub_decides(parent, n, klass_has):
            """_can_add looks at the FIRST sub space (topological order) that has the name: when sub spaces hold the
            name both as an instance of the class asked for and as something else, the answer depends on the order"""
            ds = [d for d in self.subs(parent) if self.has_cells(d, n) or self.has_ref(d, n) or self.has_child(d, n)]
            return any(klass_has(d, n) for d in ds) and any(not klass_has(d, n) for d in ds)

        if k == "NewCells":
            name, farg = op[2], op[3]
            if name is not None and not self.in_namespace(s, name) and first_sub_decides(s, name, self.has_cells_only):
                t.append("N3")
            if name is not None and is_valid_name(name) and self.can_add_cells(s, name) and farg[0] == "bad":
                t.append("D11")
            if (name is None or not is_valid_name(name)) and (name is None or self.can_add_cells(s, name)) and farg[0] != "bad":
                # the name found by the auto namer / taken from the def is not tested by the pinned tree
                if code == NAMEINUSE:
                    t.append("N1" if farg[0] == "def" and is_valid_name(farg[1]) else "N2")
        if k == "SetFormula" and op[3][0] == "bad" and self.has_cells(s, op[2]) and \
                (not self.def_cells(s, op[2]) or (s, op[2]) in self.inputs):
            t.append("D12")    # the rejected assignment has already made a derived cells defined / discarded the input
        if k == "SetParams" and code == BADFORMULA and self.sp[s]["params"] is not None:
            t.append("N11")    # the old space formula is deleted before the new one is parsed
        if k == "SetFormula" and code == ACCEPTED:
            # D2b (C03): set_cells_property overwrites a DEFINED cells of a sub space unless its first defined
            # base cells is the edited one
            n = op[2]
            for d in self.subs(s):
                if self.def_cells(d, n):
                    first = next((b for b in self.ancs(d) if self.def_cells(b, n)), None)
                    if first != s:
                        t.append("D2b")
                        break
        if k in ("NewSpace", "AddBases") and code == NAMECONFLICT:
            t.append("D13")
        if k == "NewSpace" and s and not self.in_namespace(s, op[2]) and first_sub_decides(s, op[2], self.has_child_only):
            t.append("N3")
        if k == "RenameSpace" and s:
            parent = s[:-1]
            if parent and not self.in_namespace(parent, op[2]) and first_sub_decides(parent, op[2], self.has_child_only):
                t.append("N3")
            if code == INVALIDNAME:
                t.append("N4")
        if k == "RenameCells" and self.has_cells(s, op[2]) and is_valid_name(op[3]) and not self.in_namespace(s, op[3]):
            if any(self.has_cells(d, op[3]) for d in self.subs(s)):
                t.append("D23")
            if code == ACCEPTED and any(new.has_cells(d, op[2]) for d in new.subs(s)):
                t.append("N7")
        if k == "SetAttr" and s and is_valid_name(op[2]) and not self.has_ref(s, op[2]) and self.has_gref(op[2]) \
                and code == NAMEINUSE and not self.has_cells(s, op[2]):
            t.append("N6")
        if k == "DelAttr" and s and code == ISDERIVED and not self.has_cells(s, op[2]):
            # del of a derived reference: deleted, everything below re-derived, then the call raises
            if any((d, c) in self.inputs for d in [s] + self.subs(s) for c in self.cells_names(d) if not self.def_cells(d, c)):
                t.append("N10")
        dele = None
        if k == "DelAttr" and self.has_child(s, op[2]) and not (s and self.has_cells(s, op[2])):
            dele = s + (op[2],)
        if k == "RemoveBases" or dele:
            if code == NOMRO:
                t.append("D34")
            if code == ACCEPTED and self._d3(k, dele or s, new):
                t.append("D3")
        if dele and any(is_prefix(dele, d) for d in self.subs(dele)):
            t.append("N8")     # a sub space of the deleted space inside its own child tree: KeyError half-way
        if dele and code == ACCEPTED:
            inner = [q for q in self.sp if is_prefix(dele, q) and q != dele]
            if any(d for q in inner for d in self.subs(q) if not is_prefix(dele, d)):
                t.append("N5")
        return [x for x in t if x not in REPAIRED]

    def has_cells_only(self, d, n):
        return self.has_cells(d, n)

    def has_child_only(self, d, n):
        return self.has_child(d, n)

    def _d3(self, k, s, new):
        """simulate the code (after harness/props/C03.py): _update_derived_space in edge_bfs order over the OLD
        graph, each visit reads the CURRENT member dicts of the bases along the NEW mro; a name held (derived) by a
        base not yet re-derived whose definers are gone -> bs == [] -> IndexError"""
        if s not in self.adj:
            return False
        order = ([s] if k == "RemoveBases" else []) + [v for _, v in nx.edge_bfs(self.adj, s)]
        order = [v for v in order if v in new.sp]
        for kind in ("cells", "refs"):
            names = self.cells_names if kind == "cells" else self.refs_names
            cur = {p: set(names(p)) for p in self.sp}
            dfn = {p: set(self.sp[p][kind]) for p in self.sp}
            for v in order:
                chain = new.ancs(v)
                got = set()
                for b in chain:
                    got |= cur[b]
                for n in got:
                    if n not in dfn[v] and not any(n in dfn[b] for b in chain):
                        return True
                cur[v] = dfn[v] | got
        return False


def fml_of(farg):
    if farg[0] == "none":
        return ["null"]
    if farg[0] == "lam":
        return ["lam", farg[1]]
    if farg[0] == "def":
        return ["def", farg[2]]
    return ["null"]


# --------------------------------------------------------------------------
# generator
# --------------------------------------------------------------------------
class Gen:
    """histories over a pool of 4 names: mostly accepted edits (so that the models grow), plus, at random
    points, every operation with every applicable invalid argument (rejection reason x operation)"""

    def __init__(self, rng, maxspaces=7):
        self.rng = rng
        self.filtered = {}
        self.maxspaces = maxspaces
        self.matrix = {}      # (op, reason) -> count of generated (ideal) outcomes
        self.uniq_space_names = False   # N9: keep the bare names of all spaces distinct

    def name(self, p_invalid=0.12):
        r = self.rng
        if r.random() < p_invalid:
            return r.choice(INVALID)
        if r.random() < 0.04:
            return r.choice(["Cells1", "Cells1", "Cells2"])     # the names the auto namer gives (N2, repaired in /repo)
        return r.choice(POOL)

    def farg(self, p_bad=0.12):
        r = self.rng
        x = r.random()
        if x < p_bad:
            return ["bad", r.randrange(4)]
        if x < 0.2:
            return ["none"]
        if x < 0.35:
            return ["def", r.choice(POOL + POOL + ["_f", "_g"]), r.randrange(100)]
        return ["lam", r.randrange(100)]

    def draw(self, mir):
        r = self.rng
        sps = list(mir.sp)
        x = r.random()
        any_path = lambda: list(r.choice(sps)) if sps and r.random() > 0.03 else [r.choice(POOL), r.choice(POOL), r.choice(POOL)]
        if not sps or x < 0.16:
            parent = [] if (not sps or r.random() < 0.55) else list(r.choice(sps))
            nb = r.choice([0, 0, 1, 1, 2, 3]) if sps else 0
            bases = [list(r.choice(sps)) for _ in range(nb)]
            if len(sps) >= self.maxspaces and r.random() < 0.8:
                return self.draw(mir)
            if r.random() < 0.12:
                # a creation that must be REFUSED: malformed parameter formula ((P)-only operation, see NewSpaceBad)
                return ["NewSpaceBad", parent, self.name(), bases]
            return ["NewSpace", parent, self.name(), bases]
        if x < 0.32:
            nm = None if r.random() < 0.08 else self.name()
            return ["NewCells", any_path(), nm, self.farg()]
        if x < 0.40:
            s = any_path()
            cn = mir.cells_names(tuple(s)) if tuple(s) in mir.sp else []
            n = r.choice(cn) if cn and r.random() < 0.85 else r.choice(POOL)
            return ["SetFormula", s, n, self.farg(0.25)]
        if x < 0.50:
            s = any_path()
            cn = mir.cells_names(tuple(s)) if tuple(s) in mir.sp else []
            n = r.choice(cn) if cn and r.random() < 0.85 else r.choice(POOL)
            return ["RenameCells", s, n, self.name(0.2)]
        if x < 0.57:
            return ["RenameSpace", any_path(), self.name(0.2)]
        if x < 0.69:
            nb = r.choice([0, 1, 1, 1, 2])
            return ["AddBases", any_path(), [any_path() for _ in range(nb)]]
        if x < 0.75:
            s = any_path()
            cur = mir.sp[tuple(s)]["bases"] if tuple(s) in mir.sp else []
            if cur and r.random() < 0.8:
                bs = [list(b) for b in r.sample(cur, r.choice([1, 1, 2]) if len(cur) > 1 else 1)]
                if r.random() < 0.1:
                    bs.append(bs[0])
            else:
                bs = [any_path()]
            return ["RemoveBases", s, bs]
        if x < 0.80:
            k = r.choice([1, 1, 2, 3])
            ps = [r.choice(POOL + ["i", "_j"]) if r.random() > 0.1 else r.choice(["for", "1a", "a b", "a.b"]) for _ in range(k)]
            return ["SetParams", any_path(), ps]
        if x < 0.92:
            s = [] if r.random() < 0.25 else any_path()
            v = None if r.random() < 0.2 else r.randrange(100)
            return ["SetAttr", s, self.name(), v]
        s = [] if r.random() < 0.2 else any_path()
        names = []
        if tuple(s) in mir.sp:
            names = mir.cells_names(tuple(s)) + mir.refs_names(tuple(s)) + mir.child_names(tuple(s))
        elif not s:
            names = mir.child_names(()) + list(mir.grefs)
        n = r.choice(names) if names and r.random() < 0.75 else r.choice(POOL + SYS + INVALID[:2])
        return ["DelAttr", s, n]

    def push(self, mir, ops, op, thin=True):
        """append op to ops unless the trigger of a recorded defect fires (or the draw is thinned out);
        returns (mirror after the op, ideal code or None when the op was not appended)"""
        code, new = mir.plan(op)
        trig = mir.triggers(op, code, new)
        if trig:
            for t in trig:
                self.filtered[t] = self.filtered.get(t, 0) + 1
            return mir, None
        if self.uniq_space_names and code == ACCEPTED and op[0] in ("NewSpace", "RenameSpace") and \
                (op[2] in {p[-1] for p in mir.sp}):
            self.filtered["N9"] = self.filtered.get("N9", 0) + 1
            return mir, None
        # keep the share of rejected operations around one third
        if thin and code != ACCEPTED and self.rng.random() < 0.35:
            return mir, None
        key = "%s/%s" % (op[0], CODE_NAMES[code])
        self.matrix[key] = self.matrix.get(key, 0) + 1
        ops.append(op)
        return (new if new is not None else mir), code

    def history(self, n):
        mir = Mirror()
        ops = []
        tries = 0
        while len(ops) < n and tries < n * 30:
            tries += 1
            mir, _ = self.push(mir, ops, self.draw(mir))
        return ops

    def wide_value(self, mir):
        """a reference value outside the vocabulary of Names/Model.v: a space or a cells of the model"""
        r = self.rng
        sps = list(mir.sp)
        if not sps:
            return r.randrange(100)
        p = r.choice(sps)
        cs = list(mir.sp[p]["cells"])
        if cs and r.random() < 0.4:
            return ["icells", list(p), r.choice(cs)]
        return ["iface", list(p)]

    def wide_history(self, n):
        """(P)-only histories for C12: the random histories plus (a) references - of spaces and of the model - whose
        value is a space or a cells of the model, (b) new_space(..., refs={...}) with int / None / interface values,
        names of the pool, the auto namer's names and invalid names, with and without bases.  Judged by the C12 oracle
        on the implementation's observations only (no term of Names/Model.v)."""
        r = self.rng
        mir = Mirror()
        ops = []
        tries = 0
        while len(ops) < n and tries < n * 30:
            tries += 1
            sps = list(mir.sp)
            x = r.random()
            if sps and x < 0.18:
                s = [] if r.random() < 0.4 else list(r.choice(sps))
                op = ["SetAttr", s, self.name(0.05), self.wide_value(mir)]
            elif x < 0.36:
                parent = [] if (not sps or r.random() < 0.6) else list(r.choice(sps))
                bases = [list(r.choice(sps)) for _ in range(r.choice([0, 1, 1, 2]))] if sps else []
                refs = []
                for _ in range(r.choice([1, 1, 2, 3])):
                    y = r.random()
                    v = self.wide_value(mir) if y < 0.3 else (None if y < 0.4 else r.randrange(100))
                    nm = self.name(0.1)
                    if nm not in [q[0] for q in refs]:
                        refs.append([nm, v])
                op = ["NewSpaceRefs", parent, r.choice(POOL + ["e", "f", "g"]), bases, refs]
            else:
                op = self.draw(mir)
            mir, _ = self.push(mir, ops, op)
        return ops

    def deep_conflict_history(self):
        """the scenario 'a clash deep below' (seeded/C12_r3): a chain of sub spaces S1 <- S2 <- ... <- Sk (k = 2..4,
        sometimes with a side branch), a member of one kind (cells / reference / child space) at a random depth of the
        chain, random edits, and then an operation at the TOP of the chain that would bring a member of another kind
        with the same name to every space below: AddBases(S_j, [B]) with B holding the name, or NewCells / SetAttr /
        NewSpace / RenameCells directly in S_j, or the same in a base added before.  The ideal model refuses when any
        space below - at any depth - would hold the name twice."""
        r = self.rng
        mir = Mirror()
        ops = []

        def some(k):
            nonlocal mir
            for _ in range(k):
                mir, _ = self.push(mir, ops, self.draw(mir))

        def must(op):
            nonlocal mir
            mir, code = self.push(mir, ops, op, thin=False)
            return code == ACCEPTED

        def member(sp, kind, n):
            if kind == "cells":
                return must(["NewCells", list(sp), n, ["lam", r.randrange(100)]])
            if kind == "ref":
                return must(["SetAttr", list(sp), n, r.randrange(100)])
            return must(["NewSpace", list(sp), n, []])

        tops = ["e", "f", "g", "h", "k"]
        r.shuffle(tops)
        base = (tops[0],)
        if not must(["NewSpace", [], tops[0], []]):
            return self.history(10)
        chain = []
        for k in range(r.choice([2, 3, 3, 4])):
            parent = [] if r.random() < 0.8 or not chain else list(r.choice(chain))
            bs = [list(chain[-1])] if chain else []
            if must(["NewSpace", parent, tops[k + 1], bs]):
                chain.append(tuple(parent) + (tops[k + 1],))
        if len(chain) < 2:
            return self.history(10)
        n = r.choice(POOL)
        kinds = ["cells", "ref", "space"]
        low = r.choice(kinds)
        depth = r.choice([len(chain) - 1, len(chain) - 1, r.randrange(1, len(chain))])
        member(chain[depth], low, n)
        some(r.choice([0, 0, 1, 2]))
        high = r.choice([k for k in kinds if k != low] + kinds[:1])
        j = r.choice([0, 0, 0, r.randrange(0, depth + 1)])
        how = r.choice(["addbases", "addbases", "direct", "viabase", "rename", "auto"])
        if how == "auto":
            # the name the auto namer is going to give is in use below, as another kind of member
            member(chain[depth], r.choice(["ref", "space", "cells"]), r.choice(["Cells1", "Cells1", "Cells2"]))
            tgt = r.choice([chain[j], base])
            if tgt == base:
                must(["AddBases", list(chain[j]), [list(base)]])
            for _ in range(r.choice([1, 2])):
                must(["NewCells", list(tgt), None, r.choice([["lam", r.randrange(100)], ["none"]])])
        elif how == "addbases":
            member(base, high if high != "space" else "cells", n)     # child spaces are not inherited
            some(r.choice([0, 0, 1]))
            must(["AddBases", list(chain[j]), [list(base)]])
        elif how == "direct":
            member(chain[j], high, n)
        elif how == "viabase":
            must(["AddBases", list(chain[j]), [list(base)]])
            some(r.choice([0, 0, 1]))
            member(base, high if high != "space" else "ref", n)
        else:
            other = r.choice([x for x in POOL if x != n])
            if member(chain[j], "cells", other):
                must(["RenameCells", list(chain[j]), other, n])
        some(r.choice([0, 2, 4]))
        return ops

    def override_history(self):
        """the scenario 'rename around an override': a base space with cells, a sub space, (mostly) an override of a
        base cells in the sub space (formula assignment on the derived cells, sometimes an input too), 0-3 further sub
        spaces below, random edits in between; then 2-5 RenameCells aimed at the overriding cells, at the base cells
        and at plain derived cells, with free, taken and invalid target names; then a few random edits on the result.
        Every operation passes the same defect-trigger filter as the random histories."""
        r = self.rng
        mir = Mirror()
        ops = []

        def some(k):
            nonlocal mir
            for _ in range(k):
                mir, _ = self.push(mir, ops, self.draw(mir))

        def must(op):
            nonlocal mir
            mir, code = self.push(mir, ops, op, thin=False)
            return code == ACCEPTED

        names = list(POOL)
        r.shuffle(names)
        base = (names[0],)
        if not must(["NewSpace", [], names[0], []]):
            return self.history(10)
        cn = [r.choice(POOL)] + ([r.choice(POOL)] if r.random() < 0.4 else [])
        for c in cn:
            must(["NewCells", list(base), c, r.choice([["lam", r.randrange(100)], ["def", c, r.randrange(100)], ["none"]])])
        cn = [c for c in cn if mir.def_cells(base, c)]
        some(r.choice([0, 0, 1, 2]))
        chain = []
        parent = list(r.choice([(), (), base]))
        if must(["NewSpace", parent, names[1], [list(base)] + ([list(r.choice(list(mir.sp) or [base]))] if r.random() < 0.15 else [])]):
            chain.append(tuple(parent) + (names[1],))
        for k in range(r.choice([0, 1, 1, 2, 3])):
            if not chain:
                break
            parent = list(r.choice([()] + list(mir.sp)))
            nm = r.choice(names[2:] + ["e"])
            bs = [list(r.choice(chain))] + ([list(r.choice(chain + [base]))] if r.random() < 0.2 else [])
            if must(["NewSpace", parent, nm, bs]):
                chain.append(tuple(parent) + (nm,))
            some(r.choice([0, 0, 1]))
        live = lambda: [p for p in [base] + chain if p in mir.sp]
        # the override(s)
        for p in chain:
            if p in mir.sp and r.random() < (0.85 if p == chain[0] else 0.3):
                cs = [c for c in mir.cells_names(p) if not mir.def_cells(p, c)]
                if cs:
                    c = r.choice(cs)
                    must(["SetFormula", list(p), c, r.choice([["lam", r.randrange(100)], ["def", c, r.randrange(100)]])])
                    if r.random() < 0.3:
                        must(["SetAttr", list(p), c, r.randrange(100)])
        some(r.choice([0, 0, 1, 2, 3]))
        # the renames
        for _ in range(r.choice([2, 3, 3, 4, 5])):
            sps = live()
            if not sps:
                break
            over = [(p, c) for p in sps for c in mir.cells_names(p)
                    if mir.def_cells(p, c) and any(mir.def_cells(b, c) for b in mir.ancs(p))]
            x = r.random()
            if over and x < 0.55:
                p, c = r.choice(over)
            else:
                p = r.choice(sps)
                cs = mir.cells_names(p)
                c = r.choice(cs) if cs else r.choice(POOL)
            free = [n for n in POOL + ["e"] if mir.can_rename_cells(p, n)]
            y = r.random()
            if free and y < 0.6:
                new = r.choice(free)
            elif y < 0.85:
                new = r.choice(POOL)
            else:
                new = r.choice(INVALID)
            must(["RenameCells", list(p), c, new])
            some(r.choice([0, 0, 1]))
        some(r.choice([0, 2, 4, 6]))
        return ops


def ideal_codes(ops):
    mir = Mirror()
    out = []
    for op in ops:
        code, new = mir.plan(op)
        out.append((code, mir.triggers(op, code, new)))
        if new is not None:
            mir = new
    return out


# --------------------------------------------------------------------------
# property oracles on the implementation's observations
# --------------------------------------------------------------------------
def strip_obs(o):
    """the public description compared before / after a raising call: everything observed, except what a
    DERIVED member shows (its formula / value is a function of the definitions - property C03, with its own
    recorded defects D1 D2 D33; that it exists and is derived is compared)"""
    o = copy.deepcopy(o)
    for d in o["spaces"].values():
        for n, c in d["cells"].items():
            if c[0] is True:
                c[1] = None
        for n, x in d["own"].items():
            if x[0] is True:
                x[1] = None
                d["refs"][n] = None
                d["attrs"][n] = None
    return o


WF_CLAUSES = [
    "W1 members: for every space S and every space B of S.bases (the linearised bases): B is a live space, and every cells / "
    "reference name B holds (defined or derived) is held by S as the same kind of member (S.cells / S._own_refs, getattr gives a "
    "cells / a value)",
    "W2 derived members: every member of S flagged derived is held by some space of S.bases and DEFINED by some space of S.bases "
    "(nothing is derived from nothing); every flag is a readable boolean",
    "W3 graph: the nodes of the space manager's inheritance graph are exactly the live spaces of the tree (this tree does not derive "
    "child spaces: a nested space is a member of its parent only, so the clause on child spaces is this one), its edges are exactly "
    "the (direct base, space) pairs, no space is its own direct base",
    "W4 self-checks: model._impl._check_sanity() and mxsys._check_sanity() do not fail (an AssertionError is ignored in states where "
    "two spaces share a bare name: finding N9, the self-check itself is wrong there)",
]


def wf_oracle(o):
    """well-formedness of the inheritance structure in ONE description of the implementation's state (independent of
    the Coq model and of the Mirror); list of violated clauses"""
    bad = []
    sp = o["spaces"]
    kinds = (("cells", "cells"), ("own", "reference"))
    for p, d in sp.items():
        for b in d["bases"]:
            if b not in sp:
                bad.append("W1 space %s has the base %s which is not a live space" % (p, b))
                continue
            for kind, what in kinds:
                for n in sp[b][kind]:
                    if n not in d[kind]:
                        bad.append("W1 base %s of %s holds the %s %s but %s holds no such %s (%s of %s: %r)"
                                   % (b, p, what, n, p, what, what, p, sorted(d[kind])))
                    else:
                        a = d["attrs"].get(n, "<absent>")
                        ok = a == "cells" if kind == "cells" else (isinstance(a, list) and a[:1] == ["v"])
                        if not ok:
                            bad.append("W1 base %s of %s holds the %s %s but %s.%s is %r" % (b, p, what, n, p, n, a))
        for kind, what in kinds:
            for n, rec in d[kind].items():
                if rec[0] is True:
                    have = [b for b in d["bases"] if b in sp and n in sp[b][kind]]
                    if not have:
                        bad.append("W2 %s.%s is a derived %s but no base of %s %r holds it" % (p, n, what, p, d["bases"]))
                    elif not any(sp[b][kind][n][0] is False for b in have):
                        bad.append("W2 %s.%s is a derived %s but no base of %s defines it (it is derived in %r)" % (p, n, what, p, have))
                elif rec[0] is not False:
                    bad.append("W2 the derived flag of %s.%s cannot be read: %r" % (p, n, rec[0]))
        if p in d["direct"]:
            bad.append("W3 space %s is its own direct base" % p)
    g = o.get("graph")
    if not isinstance(g, dict):
        bad.append("W3 the inheritance graph cannot be read: %r" % (g,))
    else:
        if sorted(g["nodes"]) != sorted(sp):
            bad.append("W3 graph nodes %r != live spaces %r (only in the graph: %r, only in the tree: %r)"
                       % (sorted(g["nodes"]), sorted(sp), sorted(set(g["nodes"]) - set(sp)), sorted(set(sp) - set(g["nodes"]))))
        edges = sorted([b, p] for p, d in sp.items() for b in d["direct"])
        if sorted(g["edges"]) != edges:
            bad.append("W3 graph edges %r != (direct base, space) pairs %r" % (sorted(g["edges"]), edges))
    lastnames = [p.split(".")[-1] for p in sp]
    dup = False          # N9 is repaired in /repo: the self-check must pass whatever the bare names are
    for key in ("sys_sanity", "model_sanity"):
        if o[key] != "ok" and not (dup and o[key].startswith("AssertionError")):
            bad.append("W4 %s fails: %s" % (key, o[key]))
    return bad


def c11_oracle(ops, r):
    """list of violated clauses of C11 on this run"""
    bad = []
    prev = strip_obs(r["obs0"])
    for w in wf_oracle(r["obs0"]):
        bad.append("new model: " + w)
    for i, (op, st) in enumerate(zip(ops, r["steps"])):
        o = st["obs"]
        if o is None:
            bad.append("step %d %r: the model cannot be described any more (%s)" % (i, op, st["exc"]))
            break
        so = strip_obs(o)
        if st["out"] != ACCEPTED and so != prev:
            bad.append("step %d %r raised (%s) but changed the model: %s" % (i, op, st["exc"], diff(prev, so)))
        # an ACCEPTED edit is applied completely: the inheritance structure is well-formed afterwards (a rejected one
        # has changed nothing - the clause above - so the structure is the one checked before)
        if st["out"] == ACCEPTED:
            for w in wf_oracle(o)[:4]:
                bad.append("step %d %r was accepted but the inheritance structure is malformed afterwards: %s" % (i, op, w))
        # base relation: acyclic, every space has a linearisation (space.bases could be computed)
        g = {p: d["direct"] for p, d in o["spaces"].items()}
        for p in g:
            l = c3(g, p)
            if l is None:
                bad.append("step %d %r: space %s has no C3 linearisation / the base relation is cyclic: %r" % (i, op, p, g))
                break
            if l[1:] != o["spaces"][p]["bases"]:
                bad.append("step %d %r: space %s: bases %r are not the C3 order %r of the direct bases" % (i, op, p, o["spaces"][p]["bases"], l[1:]))
        # names of user-created spaces and cells
        for p, d in o["spaces"].items():
            if not is_valid_name(d["name"]) or p.split(".")[-1] != d["name"] and "." not in d["name"]:
                bad.append("step %d %r: space name %r (path %s) is not a valid name" % (i, op, d["name"], p))
            for n, c in d["cells"].items():
                if not is_valid_name(n) or c[3] != n:
                    bad.append("step %d %r: cells name %r / %r in %s is not a valid name" % (i, op, n, c[3], p))
        prev = so
        if len(bad) > 8:
            break
    return bad


def c12_oracle(ops, r, exempt_n9=False):   # N9 is repaired in /repo
    bad = []
    for i, st in enumerate([{"obs": r["obs0"], "out": 0, "exc": None}] + r["steps"]):
        o = st["obs"]
        op = ops[i - 1] if i else None
        if o is None:
            bad.append("step %d %r: the model cannot be described any more (%s)" % (i - 1, op, st["exc"]))
            break
        lastnames = [p.split(".")[-1] for p in o["spaces"]]
        dup = exempt_n9 and len(lastnames) != len(set(lastnames))      # N9: SpaceManager._check_sanity keys the spaces by bare name
        for key in ("sys_sanity", "model_sanity"):
            if o[key] != "ok" and not (dup and o[key].startswith("AssertionError")):
                bad.append("step %d %r: %s fails: %s" % (i - 1, op, key, o[key]))
        top, gr = set(o["top"]), set(o["grefs"])
        if top & gr:
            bad.append("step %d %r: %r are both spaces and references of the model" % (i - 1, op, sorted(top & gr)))
        if sorted(o["dir"]) != sorted(top | gr) or len(o["dir"]) != len(set(o["dir"])):
            bad.append("step %d %r: dir(model) %r != spaces + refs %r" % (i - 1, op, sorted(o["dir"]), sorted(top | gr)))
        for p, d in o["spaces"].items():
            c, w, s = set(d["cells"]), set(d["own"]), set(d["spaces"])
            for a, b, what in ((c, w, "cells and own reference"), (c, s, "cells and child space"), (w, s, "own reference and child space")):
                if a & b:
                    bad.append("step %d %r: in %s the names %r are both %s" % (i - 1, op, p, sorted(a & b), what))
            refs = dict(d["refs"])
            exp = {}
            for n, v in o["grefs"].items():
                exp[n] = v
            for n in SYS:
                exp[n] = None
            for n, (dflag, v) in d["own"].items():
                exp[n] = v
            if refs != exp:
                bad.append("step %d %r: %s.refs %r != own refs over special names over model refs %r" % (i - 1, op, p, refs, exp))
            vis = c | set(refs) | s
            if sorted(d["dir"]) != sorted(vis) or len(d["dir"]) != len(set(d["dir"])):
                bad.append("step %d %r: dir(%s) %r != cells + refs + spaces %r" % (i - 1, op, p, sorted(d["dir"]), sorted(vis)))
            for n, kd in d["attrs"].items():
                if n in c:
                    want = "cells"
                elif n in refs:
                    want = {"_self": "space", "_space": "space", "_model": "model", "__builtins__": "builtins"}.get(n, ["v", refs[n]])
                    if n in d["own"]:
                        want = ["v", d["own"][n][1]]
                else:
                    want = "space"
                if isinstance(want, list) and isinstance(want[1], str) and want[1].startswith("?iface:"):
                    want = want[1].split(":")[1]          # a reference bound to a space / cells / the model
                if kd != want:
                    bad.append("step %d %r: %s.%s is %r, the containers say %r" % (i - 1, op, p, n, kd, want))
            # the ItemSpace space[0,...]: dir() == cells + refs + spaces; refs == arguments over special names over
            # the base space's own references over the model's; a parameter wins over a reference, a cells over a parameter
            it = d.get("item")
            if it is not None:
                if ("err" in it or "clear_err" in it) and any(isinstance(v[1], str) and v[1].startswith("?iface:") for v in d["own"].values()):
                    pass      # re-binding a reference to a space / cells inside the ItemSpace failed: C10's domain, not judged here
                elif "err" in it or "clear_err" in it:
                    bad.append("step %d %r: the ItemSpace of %s cannot be built / deleted: %r" % (i - 1, op, p, it))
                else:
                    iexp = {}
                    for n, v in o["grefs"].items():
                        iexp[n] = v
                    for n, (dflag, v) in d["own"].items():
                        iexp[n] = v
                    for n in SYS:
                        iexp[n] = None
                    for n in d["params"]:
                        iexp[n] = 0
                    # a relative reference (bound to a space / cells) is re-bound inside the ItemSpace, by name: what it is
                    # bound to there belongs to C10; its NAME must be there
                    rel = {k for k, v in iexp.items() if isinstance(v, str) and v.startswith("?iface:")}
                    kindonly = lambda dd: {k: ("?iface" if k in rel else v) for k, v in dd.items()}
                    if kindonly(it["refs"]) != kindonly(iexp):
                        bad.append("step %d %r: %s[0..].refs %r != parameters over special names over base refs over model refs %r" % (i - 1, op, p, it["refs"], iexp))
                    if sorted(it["cells"]) != sorted(c) or sorted(it["spaces"]) != sorted(s):
                        bad.append("step %d %r: %s[0..] cells / spaces %r %r differ from the base space's %r %r" % (i - 1, op, p, it["cells"], it["spaces"], sorted(c), sorted(s)))
                    ivis = c | set(iexp) | s
                    if sorted(it["dir"]) != sorted(ivis):
                        bad.append("step %d %r: dir(%s[0..]) %r != cells + refs + spaces %r" % (i - 1, op, p, sorted(it["dir"]), sorted(ivis)))
                    for n, kd in it["attrs"].items():
                        want = "cells" if n in c else ({"_self": "space", "_space": "space", "_model": "model", "__builtins__": "builtins"}.get(n, ["v", iexp[n]]) if n in iexp else "space")
                        if isinstance(want, list) and isinstance(want[1], str) and want[1].startswith("?iface:"):
                            continue                  # re-bound relative reference (C10)
                        if kd != want:
                            bad.append("step %d %r: %s[0..].%s is %r, the containers say %r" % (i - 1, op, p, n, kd, want))
            # a derived member has a definer among the bases; a defined one is not shadowed away
            for kind in ("cells", "own"):
                for n, rec in d[kind].items():
                    if rec[0] is True and not any(n in o["spaces"][b][kind] for b in d["bases"] if b in o["spaces"]):
                        bad.append("step %d %r: %s.%s is a derived %s but no base space has it" % (i - 1, op, p, n, kind))
                for b in d["bases"]:
                    for n in o["spaces"].get(b, {}).get(kind, {}):
                        if n not in d[kind]:
                            bad.append("step %d %r: base %s has %s %s but %s has not" % (i - 1, op, b, kind, n, p))
        # renaming a cells does not change which names the OTHER spaces define (D23)
        if i >= 1 and op[0] == "RenameCells" and st["out"] == ACCEPTED:
            before = (r["steps"][i - 2]["obs"] if i >= 2 else r["obs0"])["spaces"]
            for p, d in o["spaces"].items():
                if p == ".".join(op[1]) or p not in before:
                    continue
                issub = ".".join(op[1]) in before[p]["bases"]
                was = sorted((op[3] if n == op[2] and issub else n) for n, c in before[p]["cells"].items() if c[0] is False)
                now = sorted(n for n, c in d["cells"].items() if c[0] is False)
                if was != now:
                    bad.append("step %d %r: the cells defined in %s changed from %r to %r" % (i - 1, op, p, was, now))
        if len(bad) > 8:
            break
    return bad


def diff(a, b, pre=""):
    if isinstance(a, dict) and isinstance(b, dict):
        for k in sorted(set(a) | set(b), key=str):
            if a.get(k) != b.get(k):
                if k in a and k in b:
                    return diff(a[k], b[k], pre + "/" + str(k))
                return "%s/%s: %r -> %r" % (pre, k, a.get(k, "<absent>"), b.get(k, "<absent>"))
    return "%s: %r -> %r" % (pre, a, b)


# --------------------------------------------------------------------------
# emitting Coq terms (Names/Tie.v)
# --------------------------------------------------------------------------
def cpath(p):
    return clist([cstr(x) for x in p])


def cfarg(f):
    if f[0] == "none":
        return "ANone"
    if f[0] == "lam":
        return "(ALam %s)" % cz(f[1])
    if f[0] == "def":
        return "(ADef %s %s)" % (cstr(f[1]), cz(f[2]))
    return "ABad"


def crval(v):
    return "None" if v is None else "(Some %s)" % cz(v)


def cop(op):
    k = op[0]
    if k == "NewSpace":
        return "(NewSpace %s %s %s)" % (cpath(op[1]), cstr(op[2]), clist([cpath(b) for b in op[3]]))
    if k == "NewCells":
        return "(NewCells %s %s %s)" % (cpath(op[1]), "None" if op[2] is None else "(Some %s)" % cstr(op[2]), cfarg(op[3]))
    if k == "SetFormula":
        return "(SetFormula %s %s %s)" % (cpath(op[1]), cstr(op[2]), cfarg(op[3]))
    if k == "RenameCells":
        return "(RenameCells %s %s %s)" % (cpath(op[1]), cstr(op[2]), cstr(op[3]))
    if k == "RenameSpace":
        return "(RenameSpace %s %s)" % (cpath(op[1]), cstr(op[2]))
    if k in ("AddBases", "RemoveBases"):
        return "(%s %s %s)" % (k, cpath(op[1]), clist([cpath(b) for b in op[2]]))
    if k == "SetAttr":
        return "(SetAttr %s %s %s)" % (cpath(op[1]), cstr(op[2]), crval(op[3]))
    if k == "DelAttr":
        return "(DelAttr %s %s)" % (cpath(op[1]), cstr(op[2]))
    if k == "SetParams":
        return "(SetParams %s %s)" % (cpath(op[1]), clist([cstr(x) for x in op[2]]))
    raise RuntimeError(op)


def cfml(f):
    """observed formula of a defined cells -> option fml (None = not understood)"""
    if f[0] == "null":
        return "(Some FNull)"
    if f[0] == "lam":
        return "(Some (FLam %s))" % cz(f[1])
    if f[0] == "def":
        return "(Some (FDef %s))" % cz(f[2])
    return "None"


def emittable(o):
    """values the model can express"""
    if o is None:
        return False
    for d in o["spaces"].values():
        for n, (dflag, v) in d["own"].items():
            if not (v is None or isinstance(v, int)) or not isinstance(dflag, bool):
                return False
    return all(v is None or isinstance(v, int) for v in o["grefs"].values())


def cobs(o):
    """(spaces, grefs): space = (path, cells [(name, derived, option fml)], refs [(name, derived, value)],
    children, direct bases, bases (mro tail), dir)"""
    sp = []
    for p, d in o["spaces"].items():
        path = [x for x in split_path(p, o)]
        cells = clist([ctuple([cstr(n), cbool(c[0]), cfml(c[1]) if not c[0] else "None"]) for n, c in sorted(d["cells"].items())])
        refs = clist([ctuple([cstr(n), cbool(x[0]), "(Some %s)" % crval(x[1]) if not x[0] else "None"]) for n, x in sorted(d["own"].items())])
        sp.append(ctuple([cpath(path), cells, refs, clist([cstr(x) for x in sorted(d["spaces"])]),
                          clist([cpath(split_path(b, o)) for b in d["direct"]]),
                          clist([cpath(split_path(b, o)) for b in d["bases"]]),
                          clist([cstr(x) for x in sorted(d["dir"])]),
                          "None" if d["params"] is None else "(Some %s)" % clist([cstr(x) for x in d["params"]]),
                          "(Some %s)" % clist([cstr(x) for x in sorted(d["item"]["dir"])]) if d.get("item") and "dir" in d["item"] else "None"]))
    gr = clist([ctuple([cstr(n), crval(v)]) for n, v in sorted(o["grefs"].items()) if n != "__builtins__"])
    return ctuple([clist(sp), gr])


def split_path(p, o):
    # names never contain dots in generated histories (the witness of N4 is not emitted)
    return p.split(".")


def cterm(ops, r):
    steps = clist([ctuple([cop(op), cnat(st["out"]), cobs(st["obs"])]) for op, st in zip(ops, r["steps"])
                   if op[0] != "NewSpaceBad"])
    return steps


CORPUS = {p: os.path.join(fw.VERIF, "corpus", p) for p in ("C11", "C12")}


def load_corpus(prop):
    ws, cs = [], []
    for p in sorted(glob.glob(os.path.join(CORPUS[prop], "*.json"))):
        d = json.load(open(p))
        (ws if os.path.basename(p).startswith("finding_") else cs).append((os.path.basename(p), d))
    return ws, cs


def script_for(ops):
    return ("# stand-alone reproducer: PYTHONPATH=<modelx repo>:/verif/harness/drivers:/verif/harness python this.py\n"
            "import json, names\nops = json.loads(%r)\nr = names.run_hist({'ops': ops})\n"
            "for op, st in zip(ops, r['steps']): print(op, st['out'], st['exc'])\n"
            "import nameslib\nprint(nameslib.c11_oracle(ops, r)); print(nameslib.c12_oracle(ops, r))\n" % json.dumps(ops))


# --------------------------------------------------------------------------
# the check (shared by props/C11.py and props/C12.py)
# --------------------------------------------------------------------------
REQ = ["C3.Model", "Names.Model", "Names.Tie"]

ORACLE = {"C11": lambda ops, r: c11_oracle(ops, r), "C12": lambda ops, r: c12_oracle(ops, r)}
WITNESS_ORACLE = {"C11": lambda ops, r: c11_oracle(ops, r), "C12": lambda ops, r: c12_oracle(ops, r, exempt_n9=False)}


def matrix_histories(rng, n_each):
    """the rejection-reason x operation matrix, enumerated: for a random prefix, every operation with every
    argument class (each name of the pool and each invalid name, every space, good / bad formulas) appended
    as ONE extra step to a copy of the prefix; kept when the trigger of no recorded defect fires"""
    g = Gen(rng)
    out = []
    for _ in range(n_each):
        prefix = g.history(rng.choice([4, 8, 12, 16]))
        mir = Mirror()
        for op in prefix:
            _, new = mir.plan(op)
            if new is not None:
                mir = new
        sps = [list(p) for p in mir.sp]
        if not sps:
            continue
        s = rng.choice(sps)
        s2 = rng.choice(sps)
        names = POOL + INVALID
        cands = []
        for n in names:
            cands.append(["NewSpace", rng.choice([[], s]), n, []])
            cands.append(["NewSpace", rng.choice([[], s]), n, [s2]])
            cands.append(["NewCells", s, n, ["lam", 1]])
            cands.append(["NewCells", s, n, ["bad", 0]])
            cands.append(["RenameSpace", s, n])
            cands.append(["SetAttr", s, n, 7])
            cands.append(["SetAttr", s, n, None])
            cands.append(["SetAttr", [], n, 7])
            cands.append(["DelAttr", s, n])
            cands.append(["DelAttr", [], n])
            for c in mir.cells_names(tuple(s))[:2]:
                cands.append(["RenameCells", s, c, n])
        for c in mir.cells_names(tuple(s)):
            cands.append(["SetFormula", s, c, ["bad", 1]])
            cands.append(["SetFormula", s, c, ["def", "zz", 3]])
        for b in sps:
            cands.append(["AddBases", s, [b]])
            cands.append(["RemoveBases", s, [b]])
            cands.append(["NewSpace", [], "zz", [s, b]])
        cands.append(["NewCells", s, None, ["def", rng.choice(POOL), 5]])
        cands.append(["NewCells", s, None, ["bad", 2]])
        cands.append(["NewCells", s, None, ["none"]])
        for ps in (["i"], ["i", "i"], ["for"], ["a", "_b"], ["1a"], []):
            cands.append(["SetParams", s, ps])
        rng.shuffle(cands)
        for op in cands[:14]:
            code, new = mir.plan(op)
            trig = mir.triggers(op, code, new)
            if trig:
                for t in trig:
                    g.filtered[t] = g.filtered.get(t, 0) + 1
                continue
            key = "%s/%s" % (op[0], CODE_NAMES[code])
            g.matrix[key] = g.matrix.get(key, 0) + 1
            out.append(prefix + [op])
    return out, g


def canon(ops):
    return json.dumps(ops, sort_keys=True)


def rename_focus(ops, r):
    """what every RenameCells of the run was aimed at, read from the IMPLEMENTATION's description before the
    operation: <target>/<new name>/<outcome>, target = override (defined in the space, a base holds the name too;
    +subs when the space has sub spaces) | base (defined, no base holds it, sub spaces hold it) | derived | lone
    (defined, nothing around) | absent; new name = free (valid, unknown to the space and its sub spaces) | taken |
    invalid"""
    out = []
    prev = r["obs0"]
    for op, st in zip(ops, r["steps"]):
        if op[0] == "RenameCells" and prev is not None and ".".join(op[1]) in prev["spaces"]:
            sp = prev["spaces"]
            p = ".".join(op[1])
            d = sp[p]
            subs = [q for q, e in sp.items() if p in e["bases"]]
            c = d["cells"].get(op[2])
            if c is None:
                tgt = "absent"
            elif c[0] is True:
                tgt = "derived"
            elif any(op[2] in sp[b]["cells"] for b in d["bases"] if b in sp):
                tgt = "override+subs" if subs else "override"
            elif subs:
                tgt = "base"
            else:
                tgt = "lone"
            if not is_valid_name(op[3]):
                nm = "invalid"
            elif any(op[3] in sp[q]["dir"] for q in [p] + subs):
                nm = "taken"
            else:
                nm = "free"
            out.append("%s/%s/%s" % (tgt, nm, "accepted" if st["out"] == ACCEPTED else "rejected"))
        prev = st["obs"]
    return out


def first_step(bad):
    ks = [int(m.group(1)) for b in bad for m in [re.match(r"step (-?\d+) ", b)] if m]
    return min(ks) if ks else None


def shrink(ops, oracle, rounds=30):
    """greedy minimisation of a failing history on the implementation: cut after the first failing step, then drop
    operations as long as the oracle still fails; returns (ops, violated clauses, driver result) or (ops, None, None)"""
    run = lambda hl: fw.run_driver("names", [{"kind": "hist", "ops": h} for h in hl], chunk=16)
    cur = list(ops)
    r = run([cur])[0]
    bad = oracle(cur, r)
    if not bad:
        return ops, None, None
    k = first_step(bad)
    if k is not None and 0 <= k < len(cur) - 1:
        r2 = run([cur[:k + 1]])[0]
        b2 = oracle(cur[:k + 1], r2)
        if b2:
            cur, r, bad = cur[:k + 1], r2, b2
    for _ in range(rounds):
        if len(cur) <= 1:
            break
        cands = [cur[:i] + cur[i + 1:] for i in range(len(cur))]
        rs = run(cands)
        ok = [i for i, (c, rr) in enumerate(zip(cands, rs)) if oracle(c, rr)]
        if not ok:
            break
        allc = [op for i, op in enumerate(cur) if i not in set(ok)]
        ra = run([allc])[0] if len(ok) > 1 and allc else None
        if ra is not None and oracle(allc, ra):
            cur, r, bad = allc, ra, oracle(allc, ra)
        else:
            i = ok[-1]
            cur, r, bad = cands[i], rs[i], oracle(cands[i], rs[i])
    return cur, bad, r


def probe(histories, oracle, rng, per=160):
    """the correspondence broke on these histories but the property oracle was silent on them: run, through the
    property oracle, the prefix up to the first operation whose outcome class differs from the ideal one, extended by
    one or two follow-up operations aimed at the spaces and members that exist then (renames, formula assignments,
    deletions, new members, base edits).  Follow-ups that fire the trigger of a recorded defect are left out."""
    cases = []
    for h in histories:
        codes = ideal_codes(h)
        r0 = fw.run_driver("names", [{"kind": "hist", "ops": h}])[0]
        k = next((i for i, (st, (c, _)) in enumerate(zip(r0["steps"], codes)) if st["out"] != c), len(h) - 1)
        prefix = h[:k + 1]
        st = r0["steps"][min(k, len(r0["steps"]) - 1)]["obs"]
        if st is None:
            continue
        mir = Mirror()
        for op in prefix:
            _, new = mir.plan(op)
            if new is not None:
                mir = new
        cands = []
        sps = [q.split(".") for q in st["spaces"]]
        for q, d in st["spaces"].items():
            path = q.split(".")
            for n in list(d["cells"]) + POOL:
                cands.append(["SetFormula", path, n, ["lam", 7]])
                cands.append(["DelAttr", path, n])
                cands.append(["NewCells", path, n, ["lam", 8]])
                cands.append(["SetAttr", path, n, 9])
                for new in POOL[:3]:
                    cands.append(["RenameCells", path, n, new])
            for b in sps:
                cands.append(["AddBases", path, [b]])
                cands.append(["RemoveBases", path, [b]])
                cands.append(["NewSpace", [], "zz", [path, b]])
            cands.append(["DelAttr", path[:-1], path[-1]])
            cands.append(["RenameSpace", path, "zz"])
        keep = []
        for op in cands:
            try:
                code, new = mir.plan(op)
                if mir.triggers(op, code, new):
                    continue
            except Exception:
                pass
            keep.append(op)
        rng.shuffle(keep)
        for op in keep[:per]:
            cases.append(prefix + [op])
        for _ in range(per // 2):
            if len(keep) >= 2:
                cases.append(prefix + rng.sample(keep, 2))
    if not cases:
        return [], 0
    cases = [json.loads(c) for c in sorted({canon(h) for h in cases})]
    res = fw.run_driver("names", [{"kind": "hist", "ops": h} for h in cases], chunk=40)
    found = []
    for h, r in zip(cases, res):
        bad = oracle(h, r)
        if bad:
            found.append({"case": {"ops": h}, "detail": "found by probing around a correspondence mismatch: " + "; ".join(bad[:4]),
                          "script": script_for(h), "outcomes": [[s["out"], s["exc"]] for s in r["steps"]]})
    found.sort(key=lambda f: len(f["case"]["ops"]))
    return found[:5], len(cases)


def run_check(prop, tier, seed, rng):
    out = fw.Outcome()
    oracle = ORACLE[prop]
    witnesses, corpus = load_corpus(prop)
    nrand, nmat, nuniq, nover = (260, 40, 60, 90) if tier == "quick" else (3200, 500, 700, 1000)
    ndeep = 120 if tier == "quick" else 1500
    g = Gen(rng)
    hs = [d["ops"] for _, d in corpus]
    kinds = ["corpus"] * len(hs)
    for _ in range(nrand):
        hs.append(g.history(rng.choice([10, 20, 30, 40])))
        kinds.append("random")
    gu = Gen(rng)
    gu.uniq_space_names = True
    for _ in range(nuniq):
        hs.append(gu.history(rng.choice([10, 20, 30])))
        kinds.append("random-distinct-space-names")
    mh, gm = matrix_histories(rng, nmat)
    hs += mh
    kinds += ["matrix"] * len(mh)
    vnames = valid_name_cases(rng, 400 if tier == "quick" else 4000)
    # drawn last, so that the histories above are the ones the seed gave before this scenario existed
    go = Gen(rng)
    for _ in range(nover):
        hs.append(go.override_history())
        kinds.append("rename-around-override")
    gd = Gen(rng)
    for _ in range(ndeep):
        hs.append(gd.deep_conflict_history())
        kinds.append("clash-deep-below")
    if prop == "C12":
        for _ in range(100 if tier == "quick" else 1500):
            hs.append(gd.wide_history(rng.choice([8, 14, 20])))
            kinds.append("wide-P-only")
    cases = [{"kind": "hist", "ops": h} for h in hs]
    cases.append({"kind": "valid", "names": vnames})
    wcases = [{"kind": "hist", "ops": d["ops"]} for _, d in witnesses]
    res = fw.run_driver("names", cases + wcases, chunk=12 if tier == "quick" else 40)
    wres = res[len(cases):]
    vres = res[len(cases) - 1]
    res = res[:len(cases) - 1]

    # ---- (P) on the implementation's own observations
    nsteps = 0
    focus = {}
    focus_kind = {}
    for h, r, kd in zip(hs, res, kinds):
        nsteps += len(r["steps"])
        for k in rename_focus(h, r):
            focus[k] = focus.get(k, 0) + 1
            if k.startswith("override") and "/free/" in k:
                focus_kind[kd] = focus_kind.get(kd, 0) + 1
        bad = oracle(h, r)
        if bad:
            out.p_failures.append({"case": {"ops": h}, "detail": "; ".join(bad[:4]), "script": script_for(h),
                                   "outcomes": [[s["out"], s["exc"]] for s in r["steps"]]})
    # shortest failures first; the first ones are minimised (the history as generated is kept beside the minimised one)
    out.p_failures.sort(key=lambda f: len(f["case"]["ops"]))
    for f in out.p_failures[:3]:
        small, sbad, sr = shrink(f["case"]["ops"], oracle)
        if sbad:
            f.update({"generated_ops": f["case"]["ops"], "case": {"ops": small}, "detail": "; ".join(sbad[:4]),
                      "script": script_for(small), "outcomes": [[s["out"], s["exc"]] for s in sr["steps"]]})
    # ---- (T) the Gallina step on the same histories
    idx = [i for i, r in enumerate(res) if all(emittable(s["obs"]) for s in r["steps"]) and len(r["steps"]) == len(hs[i])
           and kinds[i] != "wide-P-only"]
    terms = [cterm(hs[i], res[i]) for i in idx]
    from concurrent.futures import ThreadPoolExecutor
    with ThreadPoolExecutor(max_workers=2) as ex:
        f1 = ex.submit(fw.run_coq_cases, prop, REQ, "tie_case", "tie_check", terms, 30 if tier == "quick" else 60)
        f2 = ex.submit(fw.run_coq_cases, prop + "v", REQ, "string * bool", "valid_check",
                       [ctuple([cstr(n), cbool(v)]) for n, v in zip(vnames, vres["valid"])], 1000)
        badidx, vbad = f1.result(), f2.result()
    for j in vbad[:5]:
        out.tie_mismatches.append({"case": {"name": vnames[j]}, "impl": vres["valid"][j],
                                   "detail": "util.is_valid_name(%r) = %r differs from Names/Model.v is_valid_name" % (vnames[j], vres["valid"][j])})
    for j in badidx[:20]:
        i = idx[j]
        tm = {"case": {"ops": hs[i]}, "outcomes": [[s["out"], s["exc"]] for s in res[i]["steps"]],
              "detail": "Names/Model.v and the implementation disagree (outcome class or name maps after some operation)"}
        if len(out.tie_mismatches) < 2:
            tm["model"] = fw.coq_show(prop, REQ, "tie_show %s" % terms[j])
        out.tie_mismatches.append(tm)
    for i, r in enumerate(res):
        if i not in set(idx) and kinds[i] != "wide-P-only":
            out.tie_mismatches.append({"case": {"ops": hs[i]}, "outcomes": [[s["out"], s["exc"]] for s in r["steps"]],
                                       "detail": "the implementation's state cannot be expressed in the model's vocabulary (observation failed or foreign values)"})
    # ---- (T) disagrees and (P) found nothing: look harder around the disagreeing histories
    nprobe = 0
    if out.tie_mismatches and not out.p_failures:
        found, nprobe = probe([t["case"]["ops"] for t in out.tie_mismatches if "ops" in t["case"]][:4], oracle, rng)
        out.p_failures += found
        out.notes.append("correspondence mismatch without a property failure: %d probe histories around the disagreeing cases "
                         "run through the property oracle, %d failed" % (nprobe, len(found)))
    out.evaluations = len(hs) + len(vnames)
    out.traces_validated = len(idx) - len(badidx) + (len(vnames) - len(vbad))
    # non-trivial for the property: the history contains a rejected operation applied to a non-empty model (C11)
    # / reaches a state where some space sees a name through inheritance or shadows a model-level name (C12)
    def nontrivial(h, r):
        if prop == "C11":
            return any(s["out"] not in (ACCEPTED, NOSUCHSPACE) for s in r["steps"][2:])
        return any(any(c[0] for c in d["cells"].values()) or any(x[0] for x in d["own"].values()) or
                   (set(d["own"]) & set(s["obs"]["grefs"]))
                   for s in r["steps"] if s["obs"] for d in s["obs"]["spaces"].values())
    out.distinct_nontrivial = len({canon(h) for h, r in zip(hs, res) if nontrivial(h, r)})
    out.samples = [{"ops": h} for h in (hs[len(corpus):len(corpus) + 1] + hs[-2:])]
    out.rule = ("histories of 10-40 public-API edits (new_space with bases / new_cells (named, unnamed, def-named) / set_formula / "
                "cells.rename / space.rename / add_bases / remove_bases / setattr / delattr on spaces and on the model) over a "
                "pool of 4 names + 6 invalid names, nested spaces, arguments steered by a Python mirror of the ideal model so that "
                "about one third of the operations is rejected; plus the rejection-reason x operation matrix: every operation with "
                "every argument class appended to random prefixes; plus the scenario 'rename around an override' (base cells, sub "
                "space, formula assignment on the derived cells = override, 0-3 sub spaces below, then 2-5 cells.rename aimed at the "
                "override / the base cells / plain derived cells with free, taken and invalid new names, random edits in between and "
                "after); plus ASCII strings for is_valid_name. Distinct by the JSON of the "
                "operation list; non-trivial = " + ("a rejected operation (other than a bad path) on a non-empty model" if prop == "C11"
                else "some space holds a derived member or shadows a model-level reference"))
    # ---- witnesses of the recorded defects
    for (name, d), r in zip(witnesses, wres):
        bad = WITNESS_ORACLE[prop](d["ops"], r)
        fw.witness_result(out, prop, d["key"], bool(bad), d["text"],
                          {"case": {"ops": d["ops"]}, "detail_oracle": bad[:3], "script": script_for(d["ops"])})
        if not bad:
            out.notes.append("witness %s no longer fails" % name)
    filt = {}
    for gg in (g, gu, gm, go, gd):
        for k, v in gg.filtered.items():
            filt[k] = filt.get(k, 0) + v
    matrix = {}
    for gg in (g, gu, gm, go, gd):
        for k, v in gg.matrix.items():
            matrix[k] = matrix.get(k, 0) + v
    implm = {}
    for h, r in zip(hs, res):
        for op, s in zip(h, r["steps"]):
            k = "%s/%s" % (op[0], CODE_NAMES[s["out"]] if s["out"] < len(CODE_NAMES) else "Other")
            implm[k] = implm.get(k, 0) + 1
    out.distribution = {"histories": {k: kinds.count(k) for k in sorted(set(kinds))}, "operations_run": nsteps,
                        "is_valid_name_strings": len(vnames),
                        "operation_x_outcome_on_the_implementation": dict(sorted(implm.items())),
                        "rename_cells_target/new_name/outcome_on_the_implementation": dict(sorted(focus.items())),
                        "rename_of_an_overriding_cells": sum(v for k, v in focus.items() if k.startswith("override")),
                        "rename_of_an_overriding_cells_to_a_free_name": sum(v for k, v in focus.items() if k.startswith("override") and "/free/" in k),
                        "rename_of_an_overriding_cells_to_a_free_name_by_history_kind": dict(sorted(focus_kind.items())),
                        "property_oracle_clauses": (["R rejected => unchanged: the description after a raising call equals the one before"]
                                                    + WF_CLAUSES + ["C3: base relation acyclic, space.bases == C3 order of the direct bases",
                                                                    "N: names of spaces and cells are valid identifiers"]) if prop == "C11" else
                                                   ["C12 clauses (nameslib.c12_oracle)"],
                        "draws_filtered_by_defect_trigger": dict(sorted(filt.items()))}
    out.notes.append("defect triggers avoided by the generator (decidable predicates on ideal state + operation, nameslib.Mirror.triggers): "
                     "D2b (C03) D3 D11 D12 D13 D23 D34 N1 N2 N3 N4 N5 N6 N7 N8 N10; N9 (the self-check itself fails when two spaces of the tree share a "
                     "bare name) is handled in the oracle: an AssertionError of the self-check is ignored in such states, and a share of the "
                     "histories keeps all space names distinct so that the self-checks are fully evaluated there")
    return out


def valid_name_cases(rng, n):
    alpha = "abzAZ_09 .-é$"
    out = list(keyword.kwlist) + ["match", "case", "type", "_", "__", "_a", "a_", "a1", "1a", "", " ", "a b", "a.b", "None_", "for_", "For",
                                  "print", "Cells1", "__builtins__", "_self", "a\n", "\x0c", "aé"]
    out = [x for x in out if all(ord(c) < 128 for c in x)] + [k + "x" for k in keyword.kwlist[:10]] + [k[:-1] for k in keyword.kwlist if len(k) > 2]
    while len(out) < n:
        l = rng.choice([1, 1, 2, 2, 3, 4, 6])
        out.append("".join(rng.choice("abzAZ_09 .-$") for _ in range(l)))
    return out


def replay_check(prop, data):
    ops = data["case"]["ops"]
    r = fw.run_driver("names", [{"kind": "hist", "ops": ops}])[0]
    bad = WITNESS_ORACLE[prop](ops, r)
    print(json.dumps({"ops": ops, "outcomes": [[s["out"], s["exc"]] for s in r["steps"]], "violated": bad}, indent=1))
    return 1 if bad else 0
