"""Assembles /verif/DESIGN.md from the hand-written part (design/DESIGN.body.md) and tables generated from
the current state of /verif (theorem inventory, findings ledger, seeded-change catch matrix)."""
import os, re, json, glob, subprocess
V = os.path.dirname(os.path.dirname(os.path.abspath(__file__)))
TH = os.path.join(V, "coq", "theories")


def theorem_table():
    rows = []
    for f in sorted(glob.glob(os.path.join(TH, "Props", "C*.v"))):
        pid = os.path.basename(f)[:-2]
        src = open(f).read()
        ths = re.findall(r"^Theorem\s+([\w']+)", src, re.M)
        rows.append("| %s | %d | %s |" % (pid, len(ths), ", ".join("`%s`" % t for t in ths)))
    return "| id | # | property theorems in `Props/<id>.v` (each `exact <lemma>` + `Print Assumptions`: closed under the global context) |\n|---|---|---|\n" + "\n".join(rows)


def layer_table():
    rows = []
    for d in sorted(os.listdir(TH)):
        p = os.path.join(TH, d)
        if os.path.isdir(p):
            files = sorted(glob.glob(os.path.join(p, "*.v")))
            n = sum(len(open(x).read().splitlines()) for x in files)
            rows.append("| `%s/` | %d | %d | %s |" % (d, len(files), n, ", ".join(os.path.basename(x)[:-2] for x in files)))
    return "| layer | files | lines | modules |\n|---|---|---|---|\n" + "\n".join(rows)


def findings_tables():
    fixed, found = [], []
    for line in open(os.path.join(V, "KNOWN_FINDINGS.txt")):
        line = line.strip()
        m = re.match(r"^fixed:\s+property=(\w+)\s+(\w+)\s+(.*)$", line)
        if m:
            fixed.append("| %s | `%s` | %s |" % (m.group(1), m.group(2), m.group(3).replace("|", "/")[:260]))
        m = re.match(r"^finding:\s+property=(\w+)\s+key=(\S+)\s+(.*)$", line)
        if m:
            found.append("| %s | `%s` | %s |" % (m.group(1), m.group(2), m.group(3).replace("|", "/")[:300]))
    t1 = "| property | /repo commit | what failed |\n|---|---|---|\n" + "\n".join(fixed)
    t2 = "| property | key | what fails (witness in `corpus/<property>/`) |\n|---|---|---|\n" + "\n".join(sorted(found))
    return t1, t2, len(fixed), len(found)


def seeded_table():
    rows = []
    for d in sorted(glob.glob(os.path.join(V, "seeded", "*"))):
        mp = os.path.join(d, "meta.json")
        if not os.path.exists(mp):
            continue
        m = json.load(open(mp))
        pid = m["property"]
        ck = m.get("checks", {})
        how = []
        for p, v in ck.items():
            if v["rc"] == 1:
                kind = "no-failing-input-found (T only)" if any("no-failing-input-found" in l for l in v["lines"]) else "(P) failing input"
                how.append("%s: %s" % (p, kind))
        diff = open(os.path.join(d, "patch.diff")).read()
        files = sorted(set(re.findall(r"^\+\+\+ b/(\S+)", diff, re.M)))
        rows.append("| `seeded/%s` | %s | %s | %s | %s | %s |" % (
            os.path.basename(d), pid, ", ".join(files), (m.get("needs_to_manifest") or m.get("note") or "")[:200].replace("|", "/"),
            "yes" if m.get("confirmed") else "NO", "; ".join(how) if how else "**missed**"))
    return "| change | property | touches | needs to manifest | confirmed (demo fails with / passes without, 869 tests pass) | caught by |\n|---|---|---|---|---|---|\n" + "\n".join(rows)


def main():
    body = open(os.path.join(V, "design", "DESIGN.body.md")).read()
    t1, t2, nf, nk = findings_tables()
    body = body.replace("@@THEOREMS@@", theorem_table()).replace("@@LAYERS@@", layer_table())
    body = body.replace("@@FIXED@@", t1).replace("@@FINDINGS@@", t2).replace("@@NFIXED@@", str(nf)).replace("@@NFINDINGS@@", str(nk))
    body = body.replace("@@SEEDED@@", seeded_table())
    open(os.path.join(V, "DESIGN.md"), "w").write(body)
    print("DESIGN.md written: %d bytes, %d fixed entries, %d findings" % (len(body), nf, nk))


if __name__ == "__main__":
    main()
