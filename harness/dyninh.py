"""Generator of the INHERITANCE class of C07 cases (differential (P) only: inheritance between static spaces is
outside Dyn/Model.v).

World: library spaces LA / LB (references, sometimes cells; LB may inherit from LA), middle spaces T / B that inherit
from the libraries (mostly holding references only, sometimes own cells or an overriding reference) and are named as
'base' by parameter formulas, parametrised spaces S / R (sometimes inheriting from a library themselves) with child
spaces C / D that inherit from a library or a middle space (mostly references only) and are replicated into every
ItemSpace; cells of the parametrised spaces read the derived references (`y`, `C.y`) and call derived cells.

History: requests (handles kept), evaluations, reads of references through kept handles (`getref`), and edits made
mostly ON THE BASES after instances were built: change / create / delete a reference, set / create / delete a cells,
override a derived reference or cells in the sub space and delete the override again, add_bases / remove_bases, new
spaces with bases, deletion of a base space; `audit` operations (and the final sweep) compare every kept valid
handle and every instance requested again with the same instance of a fresh model of the current definitions
(drivers/dyn.py audit).

Static names (cells < their callers in the order of CELLS) exclude unbounded recursion.  Not generated here (the
model-tied class does): parameter-formula changes (finding D38), deletion of a derived member through the sub space
(modelx rejects it), inheritance cycles (bases always have a lower rank: LA < LB < T, B < the rest)."""
import copy, collections
import dynlib
from dynlib import (CELLS, REFS, CHILD, node_of, children_of, gen_sig, gen_pexpr, gen_spelling, pbody_base, bases_named)

LIBS = ["LA", "LB"]
MIDS = ["T", "B"]
PARS = ["S", "R"]
RANK = {"LA": 0, "LB": 1, "T": 2, "B": 2}


def rank(p):
    return RANK.get(p[0], 3) if len(p) == 1 else 3


# ---- the mirror's view of inheritance (good enough to generate mostly valid names; modelx computes the real one)
def lin(defs, p, acc=None):
    acc = [] if acc is None else acc
    nd = node_of(defs, p)
    if nd is None or p in acc:
        return acc
    acc.append(p)
    for b in nd.get("bases") or []:
        lin(defs, b, acc)
    return acc


def vis_refs(defs, p):
    res = []
    for q in lin(defs, p):
        for x, _ in node_of(defs, q)["refs"]:
            if x not in res:
                res.append(x)
    return res


def vis_cells(defs, p):
    res = {}
    for q in lin(defs, p):
        for c in node_of(defs, q)["cells"]:
            res.setdefault(c[0], len(c[1]))
    return sorted(res.items(), key=lambda kv: CELLS.index(kv[0]) if kv[0] in CELLS else 99)


def subs_of(defs, p):
    return [nd["path"] for nd in defs if p in (nd.get("bases") or [])]


def all_subs(defs, p):
    """spaces deriving from [p], transitively"""
    return [nd["path"] for nd in defs if nd["path"] != p and p in lin(defs, nd["path"])]


def own_cells(defs, p):
    return [c[0] for c in node_of(defs, p)["cells"]]


def own_refs(defs, p):
    return [r[0] for r in node_of(defs, p)["refs"]]


def sole_definer(defs, p, c):
    """[p] is the only space defining cells [c] among the ancestors of every space that derives from [p] (otherwise
    assigning p.c.formula can overwrite a cells derived from another definer: findings D2 / D2b of C03)"""
    return not any(q != p and c in own_cells(defs, q) for y in all_subs(defs, p) for q in lin(defs, y))


def cellless(defs, p):
    """the space sees no cells at all, own or derived (the trigger of finding D41)"""
    return not vis_cells(defs, p)


def ctx_inh(defs, p, upto=None):
    """names a formula of space [p] (or of a space deriving it) can plausibly use"""
    lower = [(c, ar) for c, ar in vis_cells(defs, p) if c in CELLS and (upto is None or CELLS.index(c) < CELLS.index(upto))]
    names = vis_refs(defs, p) * 2
    for k in range(1, len(p) + 1):
        anc = node_of(defs, p[:k])
        if anc is not None and anc.get("params"):
            names += [x for x, _ in anc["params"]["sig"]]
            if k == len(p):
                acc = []
                dynlib.xrefs_named(anc["params"]["body"], acc)
                names += acc
    if rank(p) < 3:                 # a library / middle space: its formulas run inside instances of other spaces
        names += ["i"] + REFS[:2]
    attrs, ch = [], {}
    for X in children_of(defs, p):
        attrs += [(X, x) for x in vis_refs(defs, p + [X])]
        ch[X] = vis_cells(defs, p + [X])
    if len(names) >= 4:
        names = names + ["g"]
    return {"locals": [], "names": names or ["i"], "lower": lower, "children": ch, "attrs": attrs}


def gen_expr(rng, depth, ctx):
    r = rng.random()
    if ctx["attrs"] and r < 0.3:
        X, x = rng.choice(ctx["attrs"])
        e = ["attr", X, x]
        return e if depth <= 0 or rng.random() < 0.5 else ["b", rng.choice("+-*"), e, gen_expr(rng, depth - 1, ctx)]
    if depth <= 0 or r < 0.45:
        if rng.random() < 0.25:
            return ["c", rng.randint(-3, 9)]
        return ["n", rng.choice(ctx["locals"] * 2 + ctx["names"])]
    if r < 0.7:
        return ["b", rng.choice("++-*"), gen_expr(rng, depth - 1, ctx), gen_expr(rng, depth - 1, ctx)]
    if r < 0.75:
        return ["if", gen_expr(rng, depth - 1, ctx), gen_expr(rng, depth - 1, ctx), gen_expr(rng, depth - 1, ctx)]
    if r < 0.9 and ctx["lower"]:
        c, ar = rng.choice(ctx["lower"])
        return ["call", c, [dynlib.gen_arg(rng, ctx) for _ in range(ar)]]
    kids = [X for X in sorted(ctx["children"]) if ctx["children"][X]]
    if kids:
        X = rng.choice(kids)
        c, ar = rng.choice(ctx["children"][X])
        return ["child", X, c, [dynlib.gen_arg(rng, ctx) for _ in range(ar)]]
    return ["n", rng.choice(ctx["names"])]


def gen_cells(rng, name, ctx_base):
    arity = rng.choice([0, 0, 0, 1])
    params = ["x"][:arity]
    return [name, params, gen_expr(rng, rng.choice([1, 1, 2]), dict(ctx_base, locals=params))]


def gen_pbody(rng, sig, basepaths, depth=1):
    r = rng.random()
    if r < 0.3:
        return None
    if r < 0.4 or not basepaths:
        return {"base": None, "refs": [[x, gen_pexpr(rng, sig)] for x in rng.sample(["u", "y", "i"], 1)]}
    if r < 0.85 or depth <= 0:
        return {"base": list(rng.choice(basepaths)),
                "refs": [[x, gen_pexpr(rng, sig)] for x in rng.sample(["u", "y"], rng.choice([0, 0, 1]))]}
    return ["if", gen_pexpr(rng, sig, 0), gen_pbody(rng, sig, basepaths, 0), gen_pbody(rng, sig, basepaths, 0)]


def new_node(path, bases=None):
    nd = {"path": path, "params": None, "cells": [], "refs": []}
    if bases:
        nd["bases"] = [list(b) for b in bases]
    return nd


def gen_world(rng):
    defs = []
    libs = LIBS[:rng.choice([1, 1, 2])]
    for L in libs:
        nd = new_node([L], [["LA"]] if L == "LB" and rng.random() < 0.5 else None)
        defs.append(nd)
        nd["refs"] = [[x, rng.randint(0, 9)] for x in rng.sample(REFS, rng.choice([1, 1, 2, 3]))]
        if rng.random() < 0.3:
            for c in rng.sample(CELLS[:3], rng.choice([1, 1, 2])):
                nd["cells"].append(gen_cells(rng, c, ctx_inh(defs, [L], upto=c)))
            nd["cells"].sort(key=lambda c: CELLS.index(c[0]))
    libpaths = [[L] for L in libs]
    mids = rng.sample(MIDS, rng.choice([0, 1, 1, 2]))
    for M in mids:
        bs = [rng.choice(libpaths)] if len(libpaths) == 1 or rng.random() < 0.8 else list(reversed(libpaths))   # sub before base: a consistent MRO
        nd = new_node([M], bs)
        defs.append(nd)
        style = rng.choice(["refsonly"] * 3 + ["cells", "override", "ownref"])
        if style == "cells":
            c = rng.choice(CELLS[1:])
            nd["cells"].append(gen_cells(rng, c, ctx_inh(defs, [M], upto=c)))
        elif style == "override" and vis_refs(defs, [M]):
            nd["refs"] = [[rng.choice(vis_refs(defs, [M])), rng.randint(10, 19)]]
        elif style == "ownref":
            nd["refs"] = [[rng.choice(REFS + ["u"]), rng.randint(10, 19)]]
    basepaths = libpaths + [[M] for M in mids] * 3
    for S in rng.sample(PARS, rng.choice([1, 1, 2])):
        nd = new_node([S], [rng.choice(libpaths)] if rng.random() < 0.3 else None)
        defs.append(nd)
        if rng.random() < 0.4:
            nd["refs"] = [[x, rng.randint(0, 9)] for x in rng.sample(REFS, 1)]
        sig = gen_sig(rng)
        nd["params"] = {"sig": sig, "body": gen_pbody(rng, sig, basepaths)}
        for X in rng.sample(CHILD, rng.choice([0, 1, 1, 2])):
            ch = new_node([S, X], [rng.choice(basepaths)] if rng.random() < 0.85 else None)
            defs.append(ch)
            r = rng.random()
            if r < 0.25:
                c = rng.choice(CELLS[:2])
                ch["cells"].append(gen_cells(rng, c, ctx_inh(defs, [S, X], upto=c)))
            elif r < 0.4:
                ch["refs"] = [[rng.choice(REFS), rng.randint(20, 29)]]
            if rng.random() < 0.15:
                s2 = gen_sig(rng, ["k", "i"])
                ch["params"] = {"sig": s2, "body": None if rng.random() < 0.6 else gen_pbody(rng, s2, basepaths, 0)}
        for c in CELLS[1:][:rng.choice([1, 2, 2, 3])]:
            nd["cells"].append(gen_cells(rng, c, ctx_inh(defs, [S], upto=c)))
    return defs


class GenInh(dynlib.Gen):
    def __init__(self, rng, defs, nops):
        dynlib.Gen.__init__(self, rng, defs, nops)
        self.kinds = []
        self.avoided = collections.Counter()

    # cells / references a handle can be asked for: derived members included
    def pick_cells(self, slot):
        p = self.slots[slot]["path"]
        vc = vis_cells(self.defs, p) if node_of(self.defs, p) is not None else []
        if vc and self.rng.random() < 0.93:
            return self.rng.choice(vc)
        return self.rng.choice(CELLS), 0

    def op_getref(self):
        if not self.slots:
            return False
        rng = self.rng
        i = rng.randrange(len(self.slots))
        p = self.slots[i]["path"]
        vr = vis_refs(self.defs, p) if node_of(self.defs, p) is not None else []
        x = rng.choice(vr) if vr and rng.random() < 0.9 else rng.choice(REFS + ["u", "i"])
        self.emit({"op": "getref", "h": i, "x": x})
        return True

    def d41(self, affected):
        """finding D41: the derived references of a static space that sees no cells are about to be deleted / re-derived
        (reference deleted in a base, base space deleted, remove_bases, add_bases): live copies of it stay as they are"""
        return any(cellless(self.defs, q) for q in affected)

    def op_edit(self):
        rng = self.rng
        defs = self.defs
        paths = [n["path"] for n in defs]
        based = [p for p in paths if subs_of(defs, p) or tuple(p) in self.based]     # spaces others are built from
        subs = [n["path"] for n in defs if n.get("bases")]
        kind = rng.choice(["base_changeref"] * 9 + ["base_newref"] * 3 + ["base_delref"] * 2 + ["base_setformula"] * 2
                          + ["base_newcells"] * 2 + ["base_delcells"] + ["sub_override_ref"] * 2 + ["sub_del_own_ref"] * 2
                          + ["sub_override_cells"] + ["addbases"] * 2 + ["removebases"] + ["newspace"] * 2 + ["delspace"]
                          + ["any_ref"] * 2 + ["any_formula"] * 2 + ["setglobal"] + ["clearitems"] + ["delitem"])
        op = None
        if kind.startswith("base_") and based:
            p = rng.choice(based)
            nd = node_of(defs, p)
            own = [r[0] for r in nd["refs"]]
            if kind == "base_changeref" and own:
                op = {"op": "setref", "p": p, "x": rng.choice(own), "v": rng.randint(30, 60)}
            elif kind == "base_newref":
                free = [x for x in REFS + ["u"] if x not in own and not any(x in own_refs(defs, q) for q in all_subs(defs, p))]
                if free:
                    op = {"op": "setref", "p": p, "x": rng.choice(free), "v": rng.randint(30, 60)}
            elif kind == "base_delref" and own:
                op = {"op": "delref", "p": p, "x": rng.choice(own)}
            elif kind == "base_setformula" and nd["cells"]:
                c = rng.choice(nd["cells"])[0]
                if not sole_definer(defs, p, c):
                    # D2 (C03) is repaired in /repo: assignments below an override are generated
                    self.avoided["setformula_below_an_override_generated"] = self.avoided.get("setformula_below_an_override_generated", 0) + 1
                op = dict(zip(["c", "params", "body"], gen_cells(rng, c, ctx_inh(defs, p, upto=c))), op="setformula", p=p)
            elif kind == "base_newcells":
                # D1 (C03) is repaired in /repo: a name a sub space sees through another base (or defines) is generated
                free = [c for c in CELLS if c not in dict(vis_cells(defs, p))]
                if free:
                    c = rng.choice(free)
                    op = dict(zip(["c", "params", "body"], gen_cells(rng, c, ctx_inh(defs, p, upto=c))), op="newcells", p=p)
            elif kind == "base_delcells" and nd["cells"]:
                op = {"op": "delcells", "p": p, "c": rng.choice(nd["cells"])[0]}
        elif kind == "sub_override_ref" and subs:
            p = rng.choice(subs)
            own = [r[0] for r in node_of(defs, p)["refs"]]
            der = [x for x in vis_refs(defs, p) if x not in own]
            if der:
                op = {"op": "setref", "p": p, "x": rng.choice(der), "v": rng.randint(70, 90)}
        elif kind == "sub_del_own_ref" and subs:
            p = rng.choice(subs)
            own = [r[0] for r in node_of(defs, p)["refs"]]
            if own:
                op = {"op": "delref", "p": p, "x": rng.choice(own)}
        elif kind == "sub_override_cells" and [q for q in subs if not all_subs(defs, q)]:
            p = rng.choice([q for q in subs if not all_subs(defs, q)])
            own = [c[0] for c in node_of(defs, p)["cells"]]
            der = [c for c, _ in vis_cells(defs, p) if c not in own]
            if der:
                c = rng.choice(der)
                op = dict(zip(["c", "params", "body"], gen_cells(rng, c, ctx_inh(defs, p, upto=c))), op="setformula", p=p)
        elif kind == "addbases":
            p = rng.choice(paths)
            nd = node_of(defs, p)
            cands = [q for q in paths if rank(q) < rank(p) and q not in lin(defs, p)]
            if cands:
                op = {"op": "addbases", "p": p, "bases": [rng.choice(cands)]}
        elif kind == "removebases" and subs:
            p = rng.choice(subs)
            op = {"op": "removebases", "p": p, "bases": [rng.choice(node_of(defs, p)["bases"])]}
        elif kind == "newspace":
            libs = [q for q in paths if rank(q) < 3]
            if rng.random() < 0.3:
                names = [x for x in MIDS + ["U"] if [x] not in paths and x not in self.dead_names]
                lower = [q for q in libs if rank(q) < 2]
                if names and lower:
                    op = {"op": "newspace", "q": [rng.choice(names)], "params": None, "bases": [rng.choice(lower)]}
            else:
                pars = [n["path"] for n in defs if rank(n["path"]) == 3 and len(n["path"]) == 1]
                if pars:
                    p = rng.choice(pars)
                    names = [x for x in CHILD + ["E"] if p + [x] not in paths and tuple(p + [x]) not in self.dead_names]
                    if names:
                        op = {"op": "newspace", "q": p + [rng.choice(names)], "params": None}
                        if libs and rng.random() < 0.85:
                            op["bases"] = [rng.choice(libs)]
        elif kind == "delspace":
            cands = [q for q in paths if rank(q) < 3 or len(q) > 1]
            if cands:
                op = {"op": "delspace", "q": rng.choice(cands)}
        elif kind == "any_ref":
            nd = rng.choice(defs)
            x = rng.choice(REFS + ["u"])
            if x in own_refs(defs, nd["path"]) or not any(x in own_refs(defs, q) for q in all_subs(defs, nd["path"])):
                op = {"op": "setref", "p": nd["path"], "x": x, "v": rng.randint(30, 60)}
        elif kind == "any_formula":
            nds = [n for n in defs if n["cells"]]
            if nds:
                nd = rng.choice(nds)
                c = rng.choice(nd["cells"])[0]
                if not sole_definer(defs, nd["path"], c):
                    # D2 (C03) is repaired in /repo: assignments below an override are generated
                    self.avoided["setformula_below_an_override_generated"] = self.avoided.get("setformula_below_an_override_generated", 0) + 1
                op = dict(zip(["c", "params", "body"], gen_cells(rng, c, ctx_inh(defs, nd["path"], upto=c))),
                          op="setformula", p=nd["path"])
        elif kind == "setglobal":
            op = {"op": "setglobal", "x": "g", "v": rng.randint(50, 90)}
        elif kind == "clearitems":
            ps = self.param_spaces()
            if ps:
                op = {"op": "clearitems", "p": rng.choice(ps)}
        elif kind == "delitem":
            tops = [r for r in self.requests if "s" in r[0] and node_of(defs, r[0]["s"]) is not None]
            if tops:
                par, sigpath, vals = rng.choice(tops)
                op = {"op": "delitem", "p": par["s"], "key": vals}
        if op is None:
            return False
        k = op["op"]
        affected = []
        if k == "delref":
            affected = all_subs(defs, op["p"])
        elif k == "delspace":
            for q in paths:
                if q[:len(op["q"])] == op["q"]:
                    affected += all_subs(defs, q)
        elif k in ("addbases", "removebases"):
            affected = [op["p"]] + all_subs(defs, op["p"])
        # (D41 — re-inheritance of a cell-less space left its live copies alone — is repaired in /repo, a66156d:
        # such edits now meet live instances with no precaution)
        self.kinds.append(kind)
        self.emit(op)
        self.apply(op)
        return True

    def run(self):
        rng = self.rng
        # definitions made after the sub spaces exist (as in: base.rate = 3 after new_space(bases=base))
        for _ in range(rng.choice([0, 0, 1, 2])):
            lows = [n for n in self.defs if rank(n["path"]) < 2]
            nd = rng.choice(lows)
            free = [x for x in REFS + ["u"] if x not in [r[0] for r in nd["refs"]]
                    and not any(x in own_refs(self.defs, q) for q in all_subs(self.defs, nd["path"]))]
            if free:
                op = {"op": "setref", "p": nd["path"], "x": rng.choice(free), "v": rng.randint(0, 9)}
                self.kinds.append("late_definition")
                self.emit(op); self.apply(op)
        # instances first, handles kept
        for _ in range(rng.choice([1, 2, 2, 3])):
            self.op_getitem()
        if rng.random() < 0.6:
            self.op_child()
        guard = 0
        refresh = 0
        edited = False
        while len(self.ops) < self.nops and guard < 300:
            guard += 1
            r = rng.random()
            if refresh > 0:
                refresh -= 1
                r = rng.choice([0.1, 0.3, 0.45, 0.55])
            if not self.slots or r < 0.15:
                self.op_getitem()
            elif r < 0.4:
                self.op_eval()
            elif r < 0.52:
                self.op_getref()
            elif r < 0.6:
                self.op_child()
            elif edited and r < 0.66:
                self.emit({"op": "audit"})
            elif self.op_edit():
                edited = True
                refresh = rng.choice([1, 1, 2])
        return {"defs": self.case_defs, "ops": self.ops}


def gen_case(rng, nops=None):
    defs = gen_world(rng)
    g = GenInh(rng, defs, nops or rng.choice([8, 10, 12, 16]))
    case = g.run()
    case["ponly"] = True
    case["inh"] = True
    # a fifth of the histories runs with the recalculation option on: an edit recomputes the leaf dependents at once,
    # ItemSpaces among them (recalc_itemspace_target, repaired in /repo)
    case["recalc"] = rng.random() < 0.2
    case["kinds"] = g.kinds
    case["avoided"] = dict(g.avoided)
    case["precautions"] = g.precautions
    return case


def features(case):
    """what the case's INITIAL world contains (for the distribution block)"""
    defs = case["defs"]
    f = set()
    for nd in defs:
        if nd.get("bases"):
            f.add("sub_spaces")
            if not nd["cells"] and not vis_cells(defs, nd["path"]):
                f.add("sub_spaces_holding_references_only")
                if len(nd["path"]) > 1:
                    f.add("replicated_child_holding_references_only")
            if len(nd["path"]) > 1:
                f.add("replicated_child_with_bases")
            if nd.get("params"):
                f.add("parametrised_space_with_bases")
            if any(node_of(defs, b) is not None and node_of(defs, b).get("bases") for b in nd["bases"]):
                f.add("two_level_inheritance")
    named = set()
    for nd in defs:
        if nd.get("params"):
            bases_named(nd["params"]["body"], named)
    for b in named:
        nd = node_of(defs, list(b))
        if nd is not None and nd.get("bases"):
            f.add("base_chosen_by_formula_is_a_sub_space")
            if not vis_cells(defs, list(b)):
                f.add("base_chosen_by_formula_holds_references_only")
    return f
