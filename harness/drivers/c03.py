"""C03 driver: runs the REAL modelx (PYTHONPATH=$MODELX_REPO).
stdin: JSON list of cases, stdout: "@@RESULT " + JSON list (one result per case).

case kinds
  {"kind": "mro", "graph": [[node, [bases...]], ...]}          (creation order = topological)
      -> {"impl": {node: [mro...] | None}, "py": {node: [mro...] | None}}
         impl = SpaceGraph.get_mro on a graph built like new_space/add_bases build it,
         py   = CPython's own C3 (type(name, bases, {}).__mro__), None = TypeError
  {"kind": "hist", "ops": [op...]}   op = [opname, space, ...]
      -> {"steps": [{"out": code, "exc": str|None, "spaces": {...}}, ...]}
"""
import sys, json, re

import modelx as mx
from modelx.core.model import SpaceGraph

# outcome codes shared with Defs/Check.v (0 accepted, 1 rejected-unspecific, >=2 a specific reason)
ACCEPTED, REJ, NOSUCHSPACE, SPACEEXISTS, NOSUCHBASE, CYCLIC, NOMRO, NOTABASE, NAMECONFLICT, NAMEINUSE, NOSUCHMEMBER, ISDERIVED = range(12)


def classify(opname, e):
    name, msg = type(e).__name__, str(e)
    if name == "ValueError" and "cyclic inheritance" in msg:
        return CYCLIC
    if name == "TypeError" and "inconsistent hierarchy" in msg:
        return NOMRO
    if name == "NetworkXError" and "not in graph" in msg:
        return NOTABASE
    if name == "ValueError" and ("Cannot create cells" in msg or "Cannot create reference" in msg):
        return NAMEINUSE
    if name == "ValueError" and "Cannot create space" in msg:
        return SPACEEXISTS
    if name == "ValueError" and "cannot delete derived" in msg:
        return ISDERIVED
    if name == "KeyError" and opname in ("DelCells", "DelRef", "SetFormula"):
        return NOSUCHMEMBER
    if name == "NameError" and "name conflict" in msg:
        return NAMECONFLICT
    return REJ


def reset():
    for m in list(mx.get_models().values()):
        m.close()


def src_of(pay):
    return "lambda: %s" % (pay[1],)


def parse_src(src):
    m = re.match(r"^\s*lambda\s*:\s*(\S+)\s*$", src or "")
    if not m:
        return ["?", src]
    t = m.group(1)
    return ["v", int(t)] if re.match(r"^-?\d+$", t) else ["r", t]


def observe(m):
    out = {}
    for name, s in m.spaces.items():
        cells = {}
        evals = {}
        for k, c in s.cells.items():
            cells[k] = [bool(c._is_derived()), parse_src(c.formula.source if c.formula is not None else None)]
        for k in list(cells):
            try:
                v = s.cells[k]()
                evals[k] = v if isinstance(v, int) and not isinstance(v, bool) else "err"
            except BaseException:
                evals[k] = "err"
        refs = {}
        for k, r in s._impl.own_refs.items():
            if k.startswith("_"):
                continue
            v = r.interface
            refs[k] = [bool(r.is_derived()), ["v", v] if isinstance(v, int) and not isinstance(v, bool) else ["?", repr(v)]]
        out[name] = {"cells": cells, "refs": refs, "evals": evals,
                     "bases": [b.name for b in s.bases],
                     "direct": [b.name for b in s._direct_bases],
                     "graph_mro": list(m._impl.spmgr._graph.get_mro(name))}
    return out


def do_op(m, op):
    k = op[0]
    sp = lambda n: m.spaces[n]
    if k == "NewSpace":
        m.new_space(op[1], bases=[sp(b) for b in op[2]])
    elif k == "AddBases":
        sp(op[1]).add_bases(*[sp(b) for b in op[2]])
    elif k == "RemoveBases":
        sp(op[1]).remove_bases(*[sp(b) for b in op[2]])
    elif k == "DelSpace":
        delattr(m, op[1])
    elif k == "NewCells":
        sp(op[1]).new_cells(op[2], formula=src_of(op[3]))
    elif k == "SetFormula":
        sp(op[1]).cells[op[2]].set_formula(src_of(op[3]))
    elif k in ("DelCells", "DelRef"):
        delattr(sp(op[1]), op[2])
    elif k in ("NewRef", "ChangeRef"):
        setattr(sp(op[1]), op[2], op[3][1])
    elif k == "RenameCells":          # witness of D23 only; not in the model's vocabulary
        sp(op[1]).cells[op[2]].rename(op[3])
    else:
        raise RuntimeError("unknown op %r" % (op,))


def run_hist(case):
    reset()
    m = mx.new_model("M")
    steps = []
    watch = case.get("observe")      # optional list of booleans: look at the model after op i?
    for i, op in enumerate(case["ops"]):
        exc = None
        try:
            do_op(m, op)
            code = ACCEPTED
        except BaseException as e:
            code = classify(op[0], e)
            exc = "%s: %s" % (type(e).__name__, str(e)[:200])
        if watch is not None and not watch[i]:
            steps.append({"out": code, "exc": exc, "spaces": None, "skipped": True})
            continue
        try:
            snap = observe(m)
        except BaseException as e:
            snap = None
            exc = (exc or "") + " | observe failed: %s: %s" % (type(e).__name__, str(e)[:200])
        steps.append({"out": code, "exc": exc, "spaces": snap})
    reset()
    return {"steps": steps}


def run_mro(case):
    g = SpaceGraph()
    impl, py, classes = {}, {}, {}
    for node, bases in case["graph"]:
        g.add_node(node)
        for b in bases:
            g.add_edge(b, node, level=0, index=g.max_index(node) + 1)
    for node, bases in case["graph"]:
        try:
            impl[node] = list(g.get_mro(node))
        except TypeError:
            impl[node] = None
        try:
            if any(b not in classes for b in bases):
                raise TypeError("base has no linearisation")
            classes[node] = type(str(node), tuple(classes[b] for b in bases), {})
            py[node] = [c.__name__ for c in classes[node].__mro__ if c is not object]
        except TypeError:
            py[node] = None
    return {"impl": impl, "py": py}


def main():
    out = []
    for c in json.load(sys.stdin):
        out.append(run_mro(c) if c["kind"] == "mro" else run_hist(c))
    print("@@RESULT " + json.dumps(out))


main()
