"""C13 driver: runs the REAL modelx (PYTHONPATH=$MODELX_REPO).
stdin: JSON list of cases, stdout: "@@RESULT " + JSON list (one result per case).

case = {"ftab": [[name, formula]...], "ops": [op...] | None, "gen": {"seed": int, "n": int, "profile": str} | None,
        "full": "all" | "del" | "end", "avoid": bool}
  formula = ["const", z] | ["sib", n] | ["dot", g, n]
  op = ["NewSpace", hp, name, [hb...], params] | ["NewCells", h, name] | ["Take", h, name] | ["GetItem", h, k]
     | ["DelAttr", h, name] | ["AddBases", h, [hb]] | ["RemoveBases", h, [hb]] | ["SetParams", h, b]
     | ["ClearItems", h] | ["DelItem", h, k] | ["Eval", h, x] | ["BindGlobal", name, h]
     | witness-only (not in the model's vocabulary): ["Py", source]   (exec'd with m, H = handles)
  With "gen" the operations are drawn here, against the live model (so that the
  trigger predicates of the known defects are evaluated on the real objects);
  the drawn list is returned and replayed on the Gallina model by the harness.

result = {"ops": [...], "steps": [{"out": [...], "alive": [bool...], "full": {...}|None, "exc": str|None}],
          "pfail": [{"step": i, "kind": str, "detail": str}], "filtered": {key: count}, "diff": {...}}
"""
import sys, json, random

import modelx as mx
from modelx.core.errors import DeletedObjectError, FormulaError
from modelx.core.model import Model
from modelx.core.space import UserSpace, ItemSpace, DynamicSpace
from modelx.core.cells import Cells
from modelx.core.reference import ReferenceImpl

PARAM_SRC = "lambda i: None"


def reset():
    mx.set_recalc(False)
    for m in list(mx.get_models().values()):
        m.close()


def src_of(ftab, name):
    f = ftab.get(name, ["const", 0])
    if f[0] == "const":
        return "lambda x: %d" % f[1]
    if f[0] == "sib":
        return "lambda x: %s(x) + 1" % f[1]
    if f[0] == "dot":
        return "lambda x: %s.%s(x) + 1" % (f[1], f[2])
    if f[0] == "src":           # witnesses only
        return f[1]
    raise RuntimeError("bad formula %r" % (f,))


def is_alive(h):
    try:
        h.name
        return True
    except DeletedObjectError:
        return False


def valid(h):
    return h._is_valid()


def is_spacelike(h):
    return isinstance(h, (Model, UserSpace, DynamicSpace))


def comp(h):
    if isinstance(h, ItemSpace):
        a = h.argvalues
        return ["k", a[0] if len(a) == 1 and isinstance(a[0], int) else -999]
    return ["n", h.name]


def path_of(h):
    out = []
    while not isinstance(h, Model):
        if not valid(h):
            return [["n", "<dead>"]] + out
        out.insert(0, comp(h))
        h = h.parent
    return out


def node_repr(node):
    impl, key = node[0], node[1] if len(node) > 1 else None
    itf = impl.interface
    if itf._impl is not impl:
        return [[["n", "<dead>"]], -1]
    k = key[0] if (isinstance(key, tuple) and len(key) == 1 and isinstance(key[0], int)) else -999
    return [path_of(itf), k]


def public_node(n):
    """ItemNode from preds/succs"""
    o = n.obj
    a = n.args
    k = a[0] if (isinstance(a, tuple) and len(a) == 1 and isinstance(a[0], int)) else -999
    if not valid(o):
        return [[["n", "<dead>"]], k]
    return [path_of(o), k]


def observe_handle(h):
    if not is_alive(h):
        return ["dead"]
    if isinstance(h, Model):
        return ["space", [], [], sorted(h.spaces), [], [], [], False]
    if is_spacelike(h):
        items = []
        for k in h.itemspaces:
            items.append(k if isinstance(k, int) else -999)
        if isinstance(h, UserSpace):
            direct = [path_of(b) for b in h._direct_bases]
            ancs = [path_of(b) for b in h.bases]
        else:
            direct, ancs = [], []
        return ["space", path_of(h), sorted(h.cells), sorted(h.spaces), sorted(items), direct, ancs,
                h.formula is not None]
    vals = []
    for k, v in h.items():
        kk = k if isinstance(k, int) else -999
        vals.append([kk, v if isinstance(v, int) else -999, [public_node(p) for p in h.preds(k)]])
    return ["cells", path_of(h), bool(h._is_derived()), vals]


def observe_full(m, H):
    ident = []
    for i, h in enumerate(H):
        for j in range(i + 1):
            if H[j] is h:
                ident.append(j)
                break
    nodes = [node_repr(n) for n in m.tracegraph.nodes]
    return {"handles": [observe_handle(h) for h in H], "ident": ident, "nodes": nodes}


# --------------------------------------------------------------------------
# (P) the property on the implementation
# --------------------------------------------------------------------------
def contained_in(par, h):
    if isinstance(h, Cells):
        return par.cells.get(h.name) is h
    if isinstance(h, ItemSpace):
        return any(v is h for v in par.itemspaces.values())
    return par.spaces.get(h.name) is h


def p_check(m, H, step, fails):
    def fail(kind, detail):
        fails.append({"step": step, "kind": kind, "detail": detail})

    for i, h in enumerate(H):
        alive = is_alive(h)
        if not alive:
            # every accessor of a dead handle raises the deleted-object error
            probes = [("parent", lambda: h.parent), ("fullname", lambda: h.fullname)]
            if isinstance(h, Cells):
                probes += [("call", lambda: h(0)), ("formula", lambda: h.formula)]
            elif not isinstance(h, Model):
                probes += [("cells", lambda: h.cells), ("spaces", lambda: h.spaces)]
            for nm, f in probes:
                try:
                    f()
                    fail("dead-handle-acts", "handle %d: .name raises DeletedObjectError but %s works" % (i, nm))
                except DeletedObjectError:
                    pass
                except FormulaError:
                    fail("dead-handle-acts", "handle %d: %s evaluated a formula" % (i, nm))
                except Exception as e:
                    fail("dead-handle-acts", "handle %d: %s raises %s instead of DeletedObjectError" % (i, nm, type(e).__name__))
            continue
        if isinstance(h, Model):
            continue
        # walk up: every container of a live object is alive and holds it
        x = h
        while not isinstance(x, Model):
            par = x.parent
            if not valid(par):
                fail("orphan", "handle %d (%s) is alive but %s above it is deleted" % (i, h.fullname, "an object" if x is not h else "its parent"))
                break
            if not contained_in(par, x):
                fail("orphan", "handle %d (%s) is alive but %r is not in the container of its parent" % (i, h.fullname, x.name))
                break
            x = par
        else:
            par = h.parent
            if isinstance(h, Cells) and isinstance(par, UserSpace) and h._is_derived():
                if not any((h.name in b.cells) and b.cells[h.name]._is_defined() for b in par.bases):
                    fail("derived-without-definer", "handle %d (%s) is a live derived cells, no base space defines it" % (i, h.fullname))
            if isinstance(par, DynamicSpace):
                bs = par.bases
                if not bs or not valid(bs[0]):
                    fail("copy-of-deleted", "handle %d (%s): the space its parent was built from is deleted" % (i, h.fullname))
                elif isinstance(h, Cells) and h.name not in bs[0].cells:
                    fail("copy-of-deleted", "handle %d (%s) is a live dynamic copy of a deleted cells" % (i, h.fullname))
                elif isinstance(h, Cells) and h.formula.source != bs[0].cells[h.name].formula.source:
                    # seeded/C13_r3: the copied cells was replaced by one of the same name derived from another base
                    fail("copy-of-deleted", "handle %d (%s) is a live dynamic copy showing a formula its origin %s does not have any more"
                         % (i, h.fullname, bs[0].cells[h.name].fullname))
                elif isinstance(h, DynamicSpace) and not isinstance(h, ItemSpace) and h.name not in bs[0].spaces:
                    fail("copy-of-deleted", "handle %d (%s) is a live dynamic copy of a deleted space" % (i, h.fullname))
        # no survivor mentions a dead object
        if is_spacelike(h):
            for label, objs in (("cells", h.cells.values()), ("spaces", h.spaces.values()),
                                ("itemspaces", h.itemspaces.values()), ("bases", h.bases)):
                for o in objs:
                    if not valid(o):
                        fail("residue", "handle %d (%s).%s holds a deleted object" % (i, h.fullname, label))
        elif isinstance(h, Cells):
            for k in list(h):
                ka = k if isinstance(k, tuple) else (k,)
                for lab, ns in (("preds", h.preds(*ka)), ("succs", h.succs(*ka))):
                    for n in ns:
                        if not valid(n.obj):
                            fail("residue", "handle %d (%s).%s(%r) lists a deleted cells" % (i, h.fullname, lab, k))
    for sp in m.spaces.values():
        if not valid(sp):
            fail("residue", "model.spaces holds a deleted space")
    for n in m.tracegraph.nodes:
        if n[0].interface._impl is not n[0]:
            fail("residue", "model.tracegraph has a node of a deleted object (%s)" % type(n[0]).__name__)
            break


# --------------------------------------------------------------------------
# reachability audit (implementation containers, trace graph, reference graph)
# --------------------------------------------------------------------------
def impl_name(x):
    try:
        return x.get_fullname()
    except BaseException:
        return "<%s>" % type(x).__name__


def is_valid_impl(x):
    return x.interface._impl is x


def deep_audit(m, H, step, fails):
    def fail(kind, detail):
        fails.append({"step": step, "kind": kind, "detail": detail})

    mi = m._impl
    reach = {}          # id(impl) -> impl
    statics, dynamics = [], []

    def visit_space(s, parent):
        if id(s) in reach:
            return
        reach[id(s)] = s
        if not is_valid_impl(s):
            fail("residue", "a container reachable from the model holds the deleted space %s" % impl_name(s))
            return
        if s.parent is not parent:
            fail("residue", "%s is held by a container of %s, its parent is %s" % (impl_name(s), impl_name(parent), impl_name(s.parent)))
        (dynamics if s.is_dynamic() else statics).append(s)
        for c in s.cells.values():
            reach[id(c)] = c
            if not is_valid_impl(c):
                fail("residue", "%s.cells holds a deleted cells" % impl_name(s))
            elif c.parent is not s:
                fail("residue", "%s.cells holds a cells of %s" % (impl_name(s), impl_name(c.parent)))
        for t in s.named_spaces.values():
            visit_space(t, s)
        for key, t in list(s.param_spaces.items()):
            visit_space(t, s)

    for s in mi.spaces.values():
        visit_space(s, mi)

    # kept handles
    for lab, h in H.items():
        if isinstance(h, Model) or not is_alive(h):
            continue
        if id(h._impl) not in reach:
            fail("orphan", "handle %s (%s) is alive but not reachable from the model through cells / spaces / "
                           "param_spaces" % (lab, h.fullname))
    # registrations under the base
    for s in statics:
        for d in s._dynamic_subs:
            if id(d) not in reach or not is_valid_impl(d):
                fail("residue", "%s._dynamic_subs keeps the dynamic space %s that is %s"
                     % (impl_name(s), impl_name(d), "deleted" if not is_valid_impl(d) else
                        "alive but contained in a discarded ItemSpace (unreachable from the model)"))
    for d in dynamics:
        b = d._dynbase
        if id(b) not in reach or not is_valid_impl(b):
            fail("copy-of-deleted", "the dynamic space %s is alive, the space it was built from is deleted" % impl_name(d))
        elif not any(x is d for x in b._dynamic_subs):
            fail("residue", "the dynamic space %s is not registered in _dynamic_subs of its base %s" % (impl_name(d), impl_name(b)))
    # graphs
    for n in mi.tracegraph.nodes:
        if id(n[0]) not in reach:
            fail("residue", "model.tracegraph has a node of %s, which is %s" % (
                impl_name(n[0]), "deleted" if not is_valid_impl(n[0]) else "not reachable from the model"))
            break
    for n in mi.refgraph.nodes:
        if isinstance(n, ReferenceImpl):
            par = n.parent
            if par is mi:
                ok = mi.global_refs.get(n.name) is n
            else:
                ok = id(par) in reach and par.own_refs.get(n.name) is n
            if not ok:
                fail("residue", "the reference graph has a node of the reference %s, which is deleted or replaced" % impl_name(n))
                break
        elif isinstance(n, tuple):
            if id(n[0]) not in reach:
                fail("residue", "the reference graph has a node of %s, which is deleted or unreachable" % impl_name(n[0]))
                break


# --------------------------------------------------------------------------
# operations
# --------------------------------------------------------------------------
class Filtered(Exception):
    pass


def do_op(m, H, op, ftab):
    """returns out; may append to H"""
    k = op[0]
    if k == "NewSpace":
        p = H[op[1]]
        bases = [H[b] for b in op[3]]
        s = p.new_space(op[2], bases=bases if bases else None, formula=PARAM_SRC if op[4] else None)
        H.append(s)
    elif k == "NewCells":
        c = H[op[1]].new_cells(op[2], formula=src_of(ftab, op[2]))
        H.append(c)
    elif k == "Take":
        h = H[op[1]]
        if not isinstance(h, Model) and op[2] in h.cells:
            H.append(h.cells[op[2]])
        else:
            H.append(h.spaces[op[2]])
    elif k == "GetItem":
        H.append(H[op[1]][op[2]])
    elif k == "DelAttr":
        delattr(H[op[1]], op[2])
    elif k == "AddBases":
        H[op[1]].add_bases(*[H[b] for b in op[2]])
    elif k == "RemoveBases":
        H[op[1]].remove_bases(*[H[b] for b in op[2]])
    elif k == "SetParams":
        if op[2]:
            H[op[1]].set_formula(PARAM_SRC)
        else:
            H[op[1]].del_formula()
    elif k == "ClearItems":
        H[op[1]].clear_items()
    elif k == "DelItem":
        del H[op[1]][op[2]]
    elif k == "Eval":
        v = H[op[1]](op[2])
        return ["val", v if isinstance(v, int) else -999]
    elif k == "BindGlobal":
        setattr(m, op[1], H[op[2]])
    elif k == "Py":
        exec(op[1], {"m": m, "H": H, "mx": mx})
    else:
        raise RuntimeError("unknown op %r" % (op,))
    return ["done"]


def classify(e):
    if isinstance(e, DeletedObjectError):
        return ["deleted"]
    if isinstance(e, FormulaError):
        return ["formula"]
    return ["rejected"]


# --------------------------------------------------------------------------
# on-line generator (choices depend on the live model; deterministic in seed)
# --------------------------------------------------------------------------
SPACE_NAMES = ["S0", "S1", "S2", "S3", "S4"]
CELL_NAMES = ["c0", "c1", "c2", "c3"]
GLOBAL_NAMES = ["g0", "g1"]


def static_tree(s):
    out = [s]
    for c in s.spaces.values():
        out += static_tree(c)
    return out


def all_static(m):
    out = []
    for s in m.spaces.values():
        out += static_tree(s)
    return out


def subs_of(m, s):
    return [t for t in all_static(m) if any(b is s for b in t.bases)]


def deletion_triggers(m, kind, target, extra=None):
    """names of the known defects the deletion would trigger (evaluated before the operation)
    kind: 'cells' (target = cells: none known), 'space' (target = space), 'bases' (target = space losing bases).
    (The lazy-namespace case 'stale_ns' - an ItemSpace holding a copy of a re-inherited space - was dropped:
    since a66156d on_inherit discards those ItemSpaces unconditionally, as the model does.)"""
    # C13a (sub spaces of the child spaces of a deleted space not re-derived), C13e (a sub space inside the deleted
    # tree) and D3 (re-derivation order) are repaired in /repo: such deletions are generated
    return set()


def gen_op(rng, m, H, ftab, profile, filtered, avoid):
    """draw one operation; None = nothing sensible drawn this time"""
    live = [i for i, h in enumerate(H) if is_alive(h)]
    dead = [i for i, h in enumerate(H) if not is_alive(h)]
    uspaces = [i for i in live if isinstance(H[i], UserSpace)]
    pspaces = [i for i in uspaces if H[i].formula is not None]
    cells = [i for i in live if isinstance(H[i], Cells)]
    spacelike = [i for i in live if is_spacelike(H[i])]
    dyn = [i for i in live if isinstance(H[i], DynamicSpace)]

    def pick(l):
        return rng.choice(l) if l else None

    w = dict(profile)
    kinds = list(w)
    k = rng.choices(kinds, weights=[w[x] for x in kinds])[0]
    use_dead = dead and rng.random() < 0.08

    if k == "NewSpace":
        hp = pick([0] + uspaces + uspaces)
        if use_dead:
            hp = pick([i for i in dead if isinstance(H[i], UserSpace)] or [hp])
        name = rng.choice(SPACE_NAMES)
        if is_alive(H[hp]) and rng.random() < 0.85:
            free = [x for x in SPACE_NAMES if x not in H[hp].spaces]
            if free:
                name = rng.choice(free)
        nb = rng.choice([0, 0, 1, 1, 2])
        hb = rng.sample(uspaces, min(nb, len(uspaces)))
        if rng.random() < 0.05 and dead:
            db = [i for i in dead if isinstance(H[i], UserSpace)]
            if db and not avoid:
                hb = hb + [rng.choice(db)]
        return ["NewSpace", hp, name, hb, rng.random() < 0.45]
    if k == "NewCells":
        hs = pick(uspaces)
        if use_dead:
            hs = pick([i for i in dead if isinstance(H[i], UserSpace)] or [hs])
        if hs is None:
            return None
        name = rng.choice(CELL_NAMES)
        if is_alive(H[hs]) and rng.random() < 0.85:
            free = [x for x in CELL_NAMES if x not in H[hs].cells]
            if free:
                name = rng.choice(free)
        if is_alive(H[hs]) and avoid and name not in H[hs].cells and \
                any(name in t.cells and t.cells[name]._is_derived() for t in subs_of(m, H[hs])):
            # not a defect: which definer a sub space's derived cells follows is decided by the C3 order, which
            # Alive/Model.v does not model (since /repo 259d8c0 such a cells is re-derived from the new definer when it
            # comes first, and loses its values); the operation is not drawn
            filtered["C3_order_newcells"] = filtered.get("C3_order_newcells", 0) + 1
            return None
        return ["NewCells", hs, name]
    if k == "Take":
        h = pick(spacelike + dyn + dyn)
        if use_dead:
            h = pick([i for i in dead if is_spacelike(H[i])] or [h])
        if h is None:
            return None
        names = []
        if is_alive(H[h]):
            if not isinstance(H[h], Model):
                names += list(H[h].cells)
            names += list(H[h].spaces)
        if not names or rng.random() < 0.05:
            names = names + CELL_NAMES + SPACE_NAMES
        return ["Take", h, rng.choice(names)]
    if k == "GetItem":
        h = pick(pspaces)
        if use_dead:
            h = pick([i for i in dead if isinstance(H[i], UserSpace)] or [h])
        if h is None:
            return None
        return ["GetItem", h, rng.choice([1, 1, 2, 3])]
    if k == "DelAttr":
        h = pick([0] + uspaces + uspaces + uspaces)
        if use_dead:
            h = pick([i for i in dead if isinstance(H[i], UserSpace)] or [h])
        names = []
        if is_alive(H[h]):
            if isinstance(H[h], Model):
                names = list(H[h].spaces) + [g for g in GLOBAL_NAMES if g in H[h].refs]
            else:
                names = list(H[h].cells) + list(H[h].spaces)
        if not names:
            names = CELL_NAMES + SPACE_NAMES
        name = rng.choice(names)
        if is_alive(H[h]) and avoid:
            tgt = None
            if not isinstance(H[h], Model) and name in H[h].cells:
                if not H[h].cells[name]._is_derived():
                    trig = deletion_triggers(m, "cells", H[h].cells[name])
                else:
                    trig = set()
            elif name in H[h].spaces:
                trig = deletion_triggers(m, "space", H[h].spaces[name])
            else:
                trig = set()
            if trig:
                for t in trig:
                    filtered[t] = filtered.get(t, 0) + 1
                return None
        return ["DelAttr", h, name]
    if k in ("AddBases", "RemoveBases"):
        h = pick(uspaces)
        if use_dead:
            h = pick([i for i in dead if isinstance(H[i], UserSpace)] or [h])
        if h is None:
            return None
        if k == "AddBases":
            cand = [i for i in uspaces if i != h]
            if not cand:
                return None
            hb = rng.sample(cand, min(len(cand), rng.choice([1, 1, 2])))
            if rng.random() < 0.06 and dead:
                db = [i for i in dead if isinstance(H[i], UserSpace)]
                if db:
                    hb = [rng.choice(db)]
            return ["AddBases", h, hb]
        if not is_alive(H[h]):
            return ["RemoveBases", h, [pick(uspaces) or 0]]
        direct = list(H[h]._direct_bases)
        if not direct:
            return None
        chosen = rng.sample(direct, rng.choice([1, 1, len(direct)]))
        hb = []
        for b in chosen:
            idx = [i for i in uspaces if H[i] is b]
            if not idx:
                return None
            hb.append(idx[0])
        if avoid:
            trig = deletion_triggers(m, "bases", H[h])
            if trig:
                for t in trig:
                    filtered[t] = filtered.get(t, 0) + 1
                return None
        return ["RemoveBases", h, hb]
    if k == "SetParams":
        h = pick(uspaces)
        if h is None:
            return None
        return ["SetParams", h, rng.random() < 0.6]
    if k == "ClearItems":
        h = pick(pspaces)
        if h is None:
            return None
        return ["ClearItems", h]
    if k == "DelItem":
        h = pick(pspaces)
        if h is None:
            return None
        keys = [k for k in H[h].itemspaces if isinstance(k, int)]
        return ["DelItem", h, rng.choice(keys) if keys and rng.random() < 0.85 else rng.choice([1, 2, 3])]
    if k == "Eval":
        h = pick(cells)
        if use_dead:
            h = pick([i for i in dead if isinstance(H[i], Cells)] or [h])
        if h is None:
            return None
        return ["Eval", h, rng.choice([0, 1, 1, 2])]
    if k == "BindGlobal":
        free = [g for g in GLOBAL_NAMES if g not in m.refs]
        h = pick(uspaces)
        if not free or h is None:
            return None
        return ["BindGlobal", rng.choice(free), h]
    return None


def op_handle_indices(op):
    k = op[0]
    if k == "NewSpace":
        return [op[1]] + list(op[3])
    if k in ("AddBases", "RemoveBases"):
        return [op[1]] + list(op[2])
    if k == "BindGlobal":
        return [op[2]]
    if k == "Py":
        return []
    return [op[1]]


MRO_MSG = "inconsistent hierarchy"


def run_case(case):
    reset()
    ftab = {n: f for n, f in case["ftab"]}
    m = mx.new_model("M")
    H = [m]
    ops_out, steps, fails, filtered = [], [], [], {}
    fullmode = case.get("full", "del")
    avoid = case.get("avoid", True)
    gen = case.get("gen")
    rng = random.Random(gen["seed"]) if gen else None
    given = case.get("ops") or []
    n = gen["n"] if gen else len(given)
    i = 0
    attempts = 0
    while len(ops_out) < n and attempts < 6 * n + 20:
        attempts += 1
        if gen:
            try:
                op = gen_op(rng, m, H, ftab, gen["profile"], filtered, avoid)
            except BaseException as e:
                # the generator only walks live objects through the public interface:
                # an exception here means the model is in an inconsistent state
                fails.append({"step": max(0, len(ops_out) - 1), "kind": "inconsistent-state",
                              "detail": "walking the live objects raised %s: %s" % (type(e).__name__, str(e)[:160])})
                break
            if op is None:
                continue
        else:
            if i >= len(given):
                break
            op = given[i]
            i += 1
        nh = len(H)
        exc = None
        through_dead = [j for j in op_handle_indices(op) if j < len(H) and not is_alive(H[j])]
        try:
            out = do_op(m, H, op, ftab)
        except BaseException as e:
            out = classify(e)
            exc = "%s: %s" % (type(e).__name__, str(e)[:160])
            if op[0] == "Py" and isinstance(e, AssertionError):
                # a directed case states its expectation as an assertion
                fails.append({"step": len(ops_out), "kind": "directed-assertion", "detail": str(e)[:300]})
            del H[nh:]
            if gen and isinstance(e, TypeError) and MRO_MSG in str(e):
                # no C3 order: refused before anything is touched; not in the model's vocabulary
                filtered["no_mro"] = filtered.get("no_mro", 0) + 1
                continue
        ops_out.append(op)
        if through_dead and out != ["deleted"]:
            fails.append({"step": len(ops_out) - 1, "kind": "dead-handle-op",
                          "detail": "%r uses the deleted handle(s) %r and answers %r (%s) instead of DeletedObjectError"
                                    % (op, through_dead, out, exc)})
        is_del = op[0] in ("DelAttr", "RemoveBases", "ClearItems", "DelItem", "SetParams", "BindGlobal", "Py")
        last = (len(ops_out) == n)
        want_full = fullmode == "all" or (fullmode == "del" and (is_del or last)) or last
        st = {"out": out, "alive": [is_alive(h) for h in H], "full": None, "exc": exc}
        try:
            p_check(m, H, len(ops_out) - 1, fails)
        except BaseException as e:
            fails.append({"step": len(ops_out) - 1, "kind": "observe-crash",
                          "detail": "p_check: %s: %s" % (type(e).__name__, str(e)[:200])})
        try:
            deep_audit(m, dict(enumerate(H)), len(ops_out) - 1, fails)
        except BaseException as e:
            fails.append({"step": len(ops_out) - 1, "kind": "observe-crash",
                          "detail": "deep_audit: %s: %s" % (type(e).__name__, str(e)[:200])})
        try:
            if want_full:
                st["full"] = observe_full(m, H)
        except BaseException as e:
            fails.append({"step": len(ops_out) - 1, "kind": "observe-crash",
                          "detail": "%s: %s" % (type(e).__name__, str(e)[:200])})
        steps.append(st)
    if steps and steps[-1]["full"] is None:
        try:
            steps[-1]["full"] = observe_full(m, H)
        except BaseException as e:
            fails.append({"step": len(steps) - 1, "kind": "observe-crash", "detail": "%s: %s" % (type(e).__name__, str(e)[:200])})

    # (P3) no value computed from a deleted object remains: every value still held equals what a
    # fresh model computes that replayed the edits only (no evaluation before the edits)
    diff = {"compared": 0}
    try:
        held = []
        for hi, h in enumerate(H):
            if isinstance(h, Cells) and is_alive(h):
                for k, v in h.items():
                    held.append((hi, k, v))
        if held and case.get("differential", True):
            m2 = mx.new_model("M2")
            H2 = [m2]
            ok = True
            for op in ops_out:
                if op[0] == "Eval":
                    continue
                nh = len(H2)
                try:
                    do_op(m2, H2, op, ftab)
                except BaseException:
                    del H2[nh:]
            if len(H2) != len(H):
                fails.append({"step": len(steps) - 1, "kind": "replay-diverged",
                              "detail": "edit-only replay produced %d handles, live run %d" % (len(H2), len(H))})
            else:
                for hi, k, v in held:
                    h2 = H2[hi]
                    try:
                        v2 = h2(k) if not isinstance(k, tuple) else h2(*k)
                        r2 = ["val", v2]
                    except BaseException as e:
                        r2 = ["err", type(e).__name__]
                    diff["compared"] += 1
                    if r2 != ["val", v]:
                        fails.append({"step": len(steps) - 1, "kind": "stale-value",
                                      "detail": "handle %d holds value %r at %r; a model built by the same edits computes %r"
                                                % (hi, v, k, r2)})
    except BaseException as e:
        fails.append({"step": len(steps) - 1, "kind": "differential-crash", "detail": "%s: %s" % (type(e).__name__, str(e)[:200])})
    reset()
    return {"ops": ops_out, "steps": steps, "pfail": fails, "filtered": filtered, "diff": diff}


def main():
    out = []
    for c in json.load(sys.stdin):
        out.append(run_case(c))
    print("@@RESULT " + json.dumps(out))


if __name__ == "__main__":
    main()
