"""Runs worlds/ops of the Exec layer on the real modelx and records observations.
stdin: JSON list of {"world":..., "ops":[...], "observe": "all"|"last"}; stdout: @@RESULT json"""
import sys, json, warnings
warnings.filterwarnings("ignore")
import modelx as mx
from modelx.core.errors import FormulaError, NoneReturnedError, DeepReferenceError
import execlib

ERR = [(KeyboardInterrupt, "base"), (ZeroDivisionError, "zero"), (KeyError, "key"), (ValueError, "value"), (TypeError, "type"),
       (NoneReturnedError, "none"), (DeepReferenceError, "deep"), (NameError, "name"), (AttributeError, "name")]


def kind_of(e):
    for cls, k in ERR:
        if isinstance(e, cls):
            return k
    return "other:" + type(e).__name__


class Run:
    def __init__(self, world):
        for m in list(mx.get_models().values()):
            m.close()
        self.w = world
        self.log = []
        self.m = m = mx.new_model("M")
        # cells marked "derived" are defined in a base space N<k> of their space S<k> (second base F<k> is the
        # fallback definer): the executor model sees an ordinary cells, the library a derived copy
        der_spaces = {c["space"] for c in world["cells"] if c.get("derived")}
        self.near, self.far = {}, {}
        self.spaces = []
        for i in range(world["nspaces"]):
            if i in der_spaces:
                self.near[i] = m.new_space("N%d" % i)
                self.far[i] = m.new_space("F%d" % i)
                self.spaces.append(m.new_space("S%d" % i, bases=[self.near[i], self.far[i]]))
            else:
                self.spaces.append(m.new_space("S%d" % i))
        m.LOG = lambda cid, key: self.log.append([cid, [None if v is None else int(v) for v in key]])
        if world.get("shared_exc"):
            m.SHX_key = KeyError("shared")
            m.SHX_zero = ZeroDivisionError("shared")
        for r in world["refs"]:
            owner = m if r["space"] is None else self.spaces[r["space"]]
            setattr(owner, "r%d" % r["rid"], r["val"])
        self.definer = {}
        for c in world["cells"]:
            if c.get("derived"):
                self.near[c["space"]].new_cells(execlib.cname(c), formula=execlib.render_cell(c, world))
                fc = self.far[c["space"]].new_cells(execlib.cname(c), formula=execlib.render_cell(dict(c, body=c["far_body"]), world))
                if not c["cached"]:
                    fc.is_cached = False
                self.definer[c["cid"]] = "near"
            else:
                self.spaces[c["space"]].new_cells(execlib.cname(c), formula=execlib.render_cell(c, world))
        self.cells = [self.spaces[c["space"]].cells[execlib.cname(c)] for c in world["cells"]]
        for c, cells in zip(world["cells"], self.cells):
            if c["allow_none"]:
                cells.allow_none = True
            if not c["cached"]:
                self.def_cells(c).is_cached = False
        mx.set_recursion(world["maxdepth"])
        self.impl2cid = {cells._impl: c["cid"] for c, cells in zip(world["cells"], self.cells)}

    def def_cells(self, c):
        """the cells object through which definitions of world cells c are edited"""
        if c.get("derived"):
            sp = self.near if self.definer[c["cid"]] == "near" else self.far
            return sp[c["space"]].cells[execlib.cname(c)]
        return self.spaces[c["space"]].cells[execlib.cname(c)]

    def ckey(self, key):
        return [None if v is None else int(v) for v in key]

    def nd(self, n):
        cid = self.impl2cid[n[0]]
        return [cid, self.ckey(n[1])] if len(n) > 1 else [cid]

    def call(self, cells, key, spelling, c):
        if spelling == "kw":
            # keywords deliberately NOT in declaration order: binding must normalise them
            return cells(**{"p%d" % i: v for i, v in reversed(list(enumerate(key)))})
        if spelling == "getitem" and len(key) >= 1:
            return cells[tuple(key) if len(key) > 1 else key[0]]
        if spelling == "value" and len(key) == 0:
            return cells.value
        if spelling == "defaults":
            k = list(key); d = c["defaults"]; np_ = c["nparams"]
            while k and len(k) > np_ - len(d) and d[len(k) - 1 - (np_ - len(d))] == k[-1]:
                k.pop()
            return cells(*k)
        if spelling == "kwskip":
            # an EARLIER defaulted parameter omitted, the later ones given by keyword (in reversed order)
            d = c["defaults"]; np_ = c["nparams"]; first = np_ - len(d)
            pos, kw, skipped = list(key[:first]), {}, False
            for i in range(first, np_):
                if not skipped and i < np_ - 1 and d[i - first] == key[i]:
                    skipped = True
                    continue
                kw["p%d" % i] = key[i]
            return cells(*pos, **dict(reversed(list(kw.items()))))
        if spelling == "mixed" and len(key) >= 2:
            return cells(key[0], **{"p%d" % i: v for i, v in reversed(list(enumerate(key))) if i >= 1})
        return cells(*key)

    def do(self, op):
        t = op[0]
        tb = None
        try:
            if t == "eval":
                c = self.w["cells"][op[1]]
                try:
                    v = self.call(self.cells[op[1]], op[2], op[3] if len(op) > 3 else "call", c)
                    out = ["val", None if v is None else int(v)]
                except FormulaError:
                    out = ["err", kind_of(mx.get_error())]
                    tb = [[self.impl2cid[n.obj._impl], self.ckey(n.args), ln] for n, ln in mx.get_traceback()]
                except BaseException as e:
                    # the top-level call must raise FormulaError carrying the original exception
                    out = ["err", "other:raw " + type(e).__name__ + ":" + str(e)[:60]]
            elif t == "setv":
                try:
                    k = op[2]
                    cells = self.cells[op[1]]
                    if len(k) == 0 and len(op) > 4 and op[4] == "attr":
                        setattr(cells.parent, cells.name, op[3])
                    elif len(k) == 0:
                        cells.value = op[3]
                    else:
                        cells[tuple(k) if len(k) > 1 else k[0]] = op[3]
                    out = ["ok"]
                except FormulaError:
                    out = ["err", kind_of(mx.get_error())]
                except (NoneReturnedError, ValueError, TypeError):
                    out = ["rejected"]
            elif t == "clearat":
                self.cells[op[1]].clear_at(*op[2]); out = ["ok"]
            elif t == "clear":
                self.cells[op[1]].clear(); out = ["ok"]
            elif t == "clearall":
                self.cells[op[1]].clear_all(); out = ["ok"]
            elif t == "setf":
                c = dict(op[2]); c["derived"] = self.w["cells"][op[1]].get("derived", False)
                c["far_body"] = self.w["cells"][op[1]].get("far_body")
                cached_now = self.w["cells"][op[1]]["cached"]
                c["cached"] = cached_now
                self.w["cells"][op[1]] = c
                src = execlib.render_cell(c, self.w)
                how = op[3] if len(op) > 3 else "direct"
                if c["derived"] and how == "fallback" and self.definer[c["cid"]] == "near":
                    # delete the near definition: the derived copy re-derives from the far base
                    del self.near[c["space"]].cells[execlib.cname(c)]
                    self.definer[c["cid"]] = "far"
                else:
                    self.def_cells(c).formula = src
                self.cells[op[1]] = self.spaces[c["space"]].cells[execlib.cname(c)]
                self.impl2cid[self.cells[op[1]]._impl] = c["cid"]
                out = ["ok"]
            elif t == "setcached":
                self.w["cells"][op[1]]["cached"] = op[2]
                wc = self.w["cells"][op[1]]
                self.def_cells(wc).is_cached = op[2]
                if wc.get("derived") and self.definer[wc["cid"]] == "near":
                    self.far[wc["space"]].cells[execlib.cname(wc)].is_cached = op[2]   # keep the fallback definition in step
                out = ["ok"]
            elif t == "setallow":
                self.w["cells"][op[1]]["allow_none"] = op[2]
                self.def_cells(self.w["cells"][op[1]]).allow_none = op[2]
                out = ["ok"]
            elif t == "setref":
                r = self.w["refs"][op[1]]
                owner = self.m if r["space"] is None else self.spaces[r["space"]]
                setattr(owner, "r%d" % r["rid"], op[2]); out = ["ok"]
            elif t == "recalc":
                mx.set_recalc(op[1]); out = ["ok"]
            elif t == "tracecycle":
                import warnings as _w
                with _w.catch_warnings():
                    _w.simplefilter("ignore")
                    mx.start_stacktrace(); mx.stop_stacktrace()
                out = ["ok"]
            else:
                raise RuntimeError("unknown op %r" % (op,))
        except BaseException as e:      # anything unexpected is reported, not swallowed
            out = ["err", "other:" + type(e).__name__ + ":" + str(e)[:80]]
        return out, tb

    def observe(self, out, tb):
        data, inputs = [], []
        for c, cells in zip(self.w["cells"], self.cells):
            for k, v in dict(cells).items():
                kk = list(k) if isinstance(k, tuple) else [k]
                data.append([c["cid"], self.ckey(kk), None if v is None else int(v)])
                if cells.is_input(*kk):
                    inputs.append([c["cid"], self.ckey(kk)])
        g = self.m.tracegraph
        nodes = [self.nd(n) for n in g.nodes]
        edges = [[self.nd(a), self.nd(b)] for a, b in g.edges]
        redges = []
        rg = self.m._impl.refgraph
        held = {(d[0], tuple(d[1])) for d in data}
        for a, b in rg.edges:
            if b[0] in self.impl2cid and len(b) > 1:
                it = (self.impl2cid[b[0]], tuple(self.ckey(b[1])))
                if it in held:
                    redges.append([int(a.name[1:]), [it[0], list(it[1])]])
        log, self.log = self.log, []
        return {"out": out, "data": data, "inputs": inputs, "nodes": nodes, "edges": edges,
                "redges": redges, "tb": tb, "log": log}


def main():
    res = []
    for case in json.load(sys.stdin):
        try:
            run = Run(json.loads(json.dumps(case["world"])))
            obs = []
            for op in case["ops"]:
                out, tb = run.do(op)
                try:
                    ob = run.observe(out, tb)
                except BaseException as e:      # the public views themselves are broken
                    ob = {"out": ["err", "other:observation failed " + type(e).__name__ + ":" + str(e)[:60]], "data": [], "inputs": [],
                          "nodes": [], "edges": [], "redges": [], "tb": None, "log": []}
                    run.log = []
                ob["log_ordered"] = op[0] != "setv"
                obs.append(ob)
            res.append({"obs": obs})
        finally:
            mx.set_recalc(False)
            mx.set_recursion(1000)
    print("@@RESULT " + json.dumps(res))


main()
