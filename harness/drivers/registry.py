"""C19 driver: runs model-registry histories on the real modelx (public API only).

stdin : JSON list of cases {"cm": int, "cb": int, "ops": [...], "tag": str}
stdout: "@@RESULT " + JSON list of {"cm","cb","skew","obs":[...]} (one obs per op)

Per operation the observation is
  out   : 0 ok | 1 ValueError | 2 KeyError | 4 FileNotFoundError/OSError | 7 other
  reg   : sorted [[name, token]] of mx.get_models() (token = index of the handle the
          harness got when the model was created, by identity; -1 unknown object)
  names : [h.name for every handle ever created]  ("<raised:...>" if .name raises)
  cur   : token of mx.cur_model() or None
  iso   : [{"h": j, "defs": bool, "vals": bool}] handles whose public description /
          cached values differ before/after the operation
  eout  : outcome text of an edit operation (not tied)
"""
import sys, os, json, shutil, warnings

warnings.simplefilter("ignore")
import modelx as mx
from modelx.core.base import Interface

BASE = os.path.join(os.path.dirname(os.path.dirname(os.path.dirname(os.path.abspath(__file__)))), "build", "C19_tmp")

FORMULAS = [
    "lambda x: x + 1",
    "lambda x: 2 * x",
    "lambda x: foo(x) + 10",
    "lambda x: r0 + x",
    "lambda x: xc(x) + 1",        # xc: cells of another model
    "lambda x: xs.foo(x) * 3",    # xs: space of another model
    "lambda x: xm.Sa.foo(x) - 1", # xm: another model
    "lambda x: bar(x) if x > 0 else 0",
]


def reset():
    for m in list(mx.get_models().values()):
        try:
            m.close()
        except Exception:
            pass


def probe_model_counter():
    m = mx.new_model()
    n = int(m.name[len("Model"):])
    m.close()
    return n


def probe_bak_counter():
    q1 = mx.new_model("Zq")
    q2 = mx.new_model("Zq")
    n = int(q1.name.rsplit("_BAK", 1)[1])
    q1.close()
    q2.close()
    return n


def advance(cm, cb):
    """bring the two AutoNamer counters to exactly cm / cb through the public API"""
    n = probe_model_counter()
    guard = 0
    while n < cm and guard < 20000:
        n = probe_model_counter(); guard += 1
    k = probe_bak_counter()
    while k < cb and guard < 40000:
        k = probe_bak_counter(); guard += 1
    return n, k


def code_of(e):
    if isinstance(e, ValueError):
        return 1
    if isinstance(e, KeyError):
        return 2
    if isinstance(e, OSError):
        return 4
    return 7


# ---- public description of a model (definitions / cached values) ------------
def _src(f):
    try:
        return None if f is None else f.source
    except Exception as e:
        return "<formula:%s>" % type(e).__name__


def _refval(v):
    if isinstance(v, (int, float, str, bool, type(None))):
        return ["lit", repr(v)]
    if isinstance(v, Interface):
        return ["obj", type(v).__name__, id(v)]
    return ["py", type(v).__name__, id(v)]


def _rel(obj, model):
    try:
        fn = obj.fullname
        return fn.split(".", 1)[1] if "." in fn else ""
    except Exception:
        return "?"


def desc_space(s, model, defs, vals, path):
    d = {"formula": _src(s.formula), "doc": s.doc, "bases": [], "cells": {}, "refs": {}, "spaces": sorted(s.spaces)}
    try:
        d["bases"] = [(_rel(b, model) if b.model is model else ["foreign", id(b)]) for b in s.bases]
    except Exception as e:
        d["bases"] = "<%s>" % type(e).__name__
    for n in sorted(s.cells):
        c = s.cells[n]
        d["cells"][n] = [_src(c.formula), bool(c._is_derived()) if hasattr(c, "_is_derived") else None]
        try:
            vals[path + "." + n] = sorted((repr(k), repr(v)) for k, v in c.items())
        except Exception as e:
            vals[path + "." + n] = "<%s>" % type(e).__name__
    for n in sorted(s.refs):
        if n.startswith("_"):
            continue
        try:
            d["refs"][n] = _refval(s.refs[n])
        except Exception as e:
            d["refs"][n] = "<%s>" % type(e).__name__
    defs[path] = d
    for n in sorted(s.spaces):
        desc_space(s.spaces[n], model, defs, vals, path + "." + n)


def describe(m):
    defs, vals = {}, {}
    try:
        top = {"doc": m.doc, "spaces": sorted(m.spaces), "refs": {}}
        for n in sorted(m.refs):
            if n.startswith("_"):
                continue
            top["refs"][n] = _refval(m.refs[n])
        defs[""] = top
        for n in sorted(m.spaces):
            desc_space(m.spaces[n], m, defs, vals, n)
    except Exception as e:
        defs["<error>"] = type(e).__name__ + ":" + str(e)[:80]
    return json.dumps(defs, sort_keys=True, default=str), json.dumps(vals, sort_keys=True, default=str)


# ---- edits -------------------------------------------------------------------
def target_of(handles, e):
    m = handles[e["j"]]
    to = e["to"]
    if to == "model":
        return m
    if to.startswith("space:"):
        return getattr(m, to[6:])
    sp, cn = to[6:].split(".")
    return getattr(getattr(m, sp), cn)


def do_edit(handles, h, e):
    m = handles[h]
    t = e["t"]
    if t == "space":
        m.new_space(e["n"])
    elif t == "cells":
        getattr(m, e["s"]).new_cells(e["n"], formula=FORMULAS[e["f"]])
    elif t == "setf":
        getattr(getattr(m, e["s"]), e["n"]).formula = FORMULAS[e["f"]]
    elif t == "input":
        getattr(getattr(m, e["s"]), e["n"])[e["k"]] = e["v"]
    elif t == "eval":
        getattr(getattr(m, e["s"]), e["n"])(e["k"])
    elif t == "ref":
        setattr(getattr(m, e["s"]) if e.get("s") else m, e["n"], e["v"])
    elif t == "xref":
        setattr(getattr(m, e["s"]) if e.get("s") else m, e["n"], target_of(handles, e))
    elif t == "noderef":      # a reference bound to a NODE of a cells of the model itself (directed cases, tag "n")
        sp = getattr(m, e["s"])
        setattr(sp, e["n"], getattr(sp, e["c"]).node(e["k"]))
    elif t == "delcells":
        delattr(getattr(m, e["s"]), e["n"])
    elif t == "delspace":
        delattr(m, e["n"])
    elif t == "renspace":
        getattr(m, e["n"]).rename(e["to"])
    elif t == "clear":
        m.clear_all()
    elif t == "doc":
        m.doc = e["v"]
    elif t == "base":
        getattr(m, e["s"]).add_bases(getattr(m, e["b"]))
    else:
        raise RuntimeError("unknown edit " + t)


def token(handles, obj):
    for i, h in enumerate(handles):
        if h is obj:
            return i
    return -1


def foreign_holdings(handles):
    """[holder token, reference, owner token]: references of an open model bound to an object / node of ANOTHER model"""
    out = []
    for i, h in enumerate(handles):
        try:
            if mx.get_models().get(h.name) is not h:
                continue
            owners = [(h, "")] + [(sp, sp.name + ".") for sp in h.spaces.values()]
            for o, pre in owners:
                for n, v in dict(o._own_refs if hasattr(o, "_own_refs") else o.refs).items():
                    tgt = getattr(v, "obj", v)
                    mdl = getattr(tgt, "model", None)
                    if mdl is not None and mdl is not h and n != "__builtins__":
                        out.append([i, pre + n, token(handles, mdl)])
        except Exception as e:
            out.append([i, "<raised:%s>" % type(e).__name__, -2])
    return out


def observe(handles):
    reg = sorted([n, token(handles, m)] for n, m in mx.get_models().items())
    names = []
    for h in handles:
        try:
            names.append(h.name)
        except Exception as e:
            names.append("<raised:%s>" % type(e).__name__)
    c = mx.cur_model()
    return reg, names, (None if c is None else token(handles, c))


def run_case(case, idx):
    reset()
    left = sorted(mx.get_models())
    if left:       # every registered model was closed and the registry is still not empty
        return {"cm": 0, "cb": 0, "skew": False, "dirty": left, "obs": []}
    try:
        cm, cb = advance(case["cm"], case["cb"])
    except Exception as e:   # the probe itself is a tiny history: new_model() / new_model('Zq') twice
        reset()
        return {"cm": 0, "cb": 0, "skew": False, "probe_failed": "%s: %s" % (type(e).__name__, e), "obs": []}
    res = {"cm": cm, "cb": cb, "skew": (cm != case["cm"] or cb != case["cb"]), "obs": []}
    if res["skew"]:
        return res
    root = os.path.join(BASE, "%d_%d_%s" % (os.getpid(), idx, case.get("tag", "")))
    shutil.rmtree(root, ignore_errors=True)
    os.makedirs(root)
    handles = []
    check_iso = case.get("iso", True)
    try:
        for op in case["ops"]:
            if any(isinstance(op.get(f), int) and op[f] >= len(handles) for f in ("h",)) or \
                    (op["k"] == "edit" and op["e"].get("j", 0) >= len(handles)):
                break                      # the generator refers to a handle that does not exist: stop here
            before = [describe(h) for h in handles] if check_iso else []
            out, eout, new = 0, None, None
            k = op["k"]
            try:
                if k == "new":
                    new = mx.new_model(op["name"])
                elif k == "rename":
                    handles[op["h"]].rename(op["new"], rename_old=op["ro"])
                elif k == "close":
                    handles[op["h"]].close()
                elif k == "write":
                    p = os.path.join(root, "slot%d" % op["slot"])
                    if op.get("zip"):
                        mx.zip_model(handles[op["h"]], p)
                    else:
                        mx.write_model(handles[op["h"]], p)
                elif k == "read":
                    p = os.path.join(root, "slot%d" % op["slot"])
                    if op["name"] is None:
                        new = mx.read_model(p)
                    else:
                        new = mx.read_model(p, name=op["name"])
                elif k == "setcur":
                    mx.cur_model(op["name"])
                elif k == "apinewspace":
                    mx.new_space()
                    c = mx.cur_model()
                    if c is not None and token(handles, c) < 0:
                        new = c
                elif k == "edit":
                    try:
                        do_edit(handles, op["h"], op["e"])
                        eout = "ok"
                    except Exception as e:
                        eout = "err:" + type(e).__name__
                else:
                    raise RuntimeError("unknown op " + k)
            except Exception as e:
                out = code_of(e)
                eout = type(e).__name__ + ":" + str(e)[:100]
            if new is not None:
                handles.append(new)
            reg, names, cur = observe(handles)
            iso = []
            if check_iso:
                for j, b in enumerate(before):
                    a = describe(handles[j])
                    if a != b:
                        iso.append({"h": j, "defs": a[0] != b[0], "vals": a[1] != b[1]})
            res["obs"].append({"out": out, "reg": reg, "names": names, "cur": cur, "iso": iso, "eout": eout})
            if case.get("tag") == "n":
                res["obs"][-1]["foreign"] = foreign_holdings(handles)
    finally:
        reset()
        for h in handles:
            try:
                h.close()
            except Exception:
                pass
        shutil.rmtree(root, ignore_errors=True)
    return res


def main():
    cases = json.load(sys.stdin)
    out = []
    real_stdout = sys.stdout
    sys.stdout = sys.stderr          # modelx prints nothing, but be safe
    try:
        for i, c in enumerate(cases):
            out.append(run_case(c, i))
    finally:
        sys.stdout = real_stdout
    print("@@RESULT " + json.dumps(out))


if __name__ == "__main__":
    main()
