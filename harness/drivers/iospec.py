"""Runs IOSpec histories (C18) on the real modelx.

stdin : JSON list of cases {"ops": [...], "kinds": {token: "df"|"series"|"plain"}, "roundtrip": bool}
stdout: "@@RESULT " + JSON list, one entry per case:
        {"obs": [observation after every op], "rt": round-trip report or None}

Numbers used by the cases (the same numbering as coq/theories/IOSpec/Model.v):
  models 0,1 -> "M0","M1"; spaces 0..2 -> "S0".."S2"; names see NAMES; paths see PATHS; sheets see SHEETS;
  values are tokens: the driver creates one Python object per token (kinds), modules created by
  new_module/update_module get the token named by the operation.
"""
import sys, os, json, types, shutil, inspect
import pandas as pd
import modelx as mx

from iospec_names import NAMES, PATHS, SHEETS
TMP = os.path.join(os.path.dirname(os.path.dirname(os.path.dirname(os.path.abspath(__file__)))), "build", "C18tmp")
RPATHS = {v: k for k, v in PATHS.items()}
RSHEETS = {v: k for k, v in SHEETS.items()}
RNAMES = {v: k for k, v in NAMES.items()}


def ensure_sources():
    d = os.path.join(TMP, "src")
    os.makedirs(d, exist_ok=True)
    for k in range(4):
        p = os.path.join(d, "modsrc%d.py" % k)
        if not os.path.exists(p):
            tmp = p + ".%d" % os.getpid()
            with open(tmp, "w") as f:
                f.write("K = %d\n\ndef f(x):\n    return x + %d\n" % (k, k))
            os.replace(tmp, p)
    return d


SRC = ensure_sources()


def make_value(tok, kind):
    # every fourth value is EMPTY (zero rows): an object that defines __len__ is falsy when empty, which is what
    # `if spec:` / `if value:` tests in the bookkeeping would trip over
    if kind == "df":
        if tok % 4 == 3:
            return pd.DataFrame({"a": pd.Series([], dtype="int64"), "b": pd.Series([], dtype="float64")})
        if tok % 4 == 1:
            return pd.DataFrame({"c": [float(tok), tok + 0.5]})      # ONE column: what squeeze("columns") turns into a Series
        return pd.DataFrame({"a": [tok, tok + 1], "b": [1.5, float(tok)]})
    if kind == "series":
        if tok % 4 == 3:
            return pd.Series([], dtype="float64", name="s%d" % tok)
        return pd.Series([tok, 2 * tok, 7], name="s%d" % tok)
    if kind == "plain":
        return [tok]
    raise ValueError(kind)


class Case:
    def __init__(self, case):
        self.case = case
        self.kinds = {int(k): v for k, v in case.get("kinds", {}).items()}
        self.vals = {}            # token -> object
        self.models = {}          # index -> Model (also after close)
        self.closed = set()
        self.auto = 100000

    # -- tokens -----------------------------------------------------------
    def value(self, tok):
        if tok not in self.vals:
            self.vals[tok] = make_value(tok, self.kinds[tok])
        return self.vals[tok]

    def token(self, obj):
        for t, o in self.vals.items():
            if o is obj:
                return t
        self.auto += 1
        self.vals[self.auto] = obj
        return self.auto

    def known(self, obj):
        return any(o is obj for o in self.vals.values())

    # -- objects ----------------------------------------------------------
    def model(self, m):
        if m not in self.models:
            self.models[m] = mx.new_model("M%d" % m)
        return self.models[m]

    def owner(self, m, s):
        mod = self.model(m)
        return mod if s is None else mod.spaces[NAMES[s]]

    # -- operations -------------------------------------------------------
    def apply(self, o):
        k = o["op"]
        if k == "newspace":
            self.model(o["m"]).new_space(NAMES[o["s"]])
        elif k == "newcells":
            self.owner(o["m"], o["s"]).new_cells(NAMES[o["n"]], formula="lambda i: i")
        elif k == "newpandas":
            ft = {"csv": "csv", "excel": "excel", "bad": "txt"}[o["ft"]]
            sh = None if o["sh"] is None else SHEETS[o["sh"]]
            path = o.get("abspath") or PATHS[o["p"]]
            self.owner(o["m"], o["s"]).new_pandas(NAMES[o["n"]], path, self.value(o["v"]), file_type=ft, sheet=sh)
        elif k == "newmodule":
            src = os.path.join(SRC, "modsrc%d.py" % (o["v"] % 4)) if o["src_ok"] else os.path.join(SRC, "missing.py")
            mod = self.owner(o["m"], o["s"]).new_module(NAMES[o["n"]], PATHS[o["p"]], src)
            self.vals[o["v"]] = mod
        elif k == "assign":
            setattr(self.owner(o["m"], o["s"]), NAMES[o["n"]], self.value(o["v"]))
        elif k == "delref":
            delattr(self.owner(o["m"], o["s"]), NAMES[o["n"]])
        elif k == "update":
            mod = self.model(o["m"])
            old = self.value(o["old"])
            if o.get("module"):
                src = os.path.join(SRC, "modsrc%d.py" % (o["new"] % 4))
                mod.update_module(old, src)
                self.adopt(mod, o["new"])
            elif o["new"] == o["old"]:
                mod.update_pandas(old)
            else:
                mod.update_pandas(old, self.value(o["new"]))
        elif k == "addbase":
            self.owner(o["m"], o["s"]).add_bases(self.owner(o["m"], o["b"]))
        elif k == "removebase":
            self.owner(o["m"], o["s"]).remove_bases(self.owner(o["m"], o["b"]))
        elif k == "close":
            self.model(o["m"]).close()
            self.closed.add(o["m"])
        elif k == "setsheet":
            self.model(o["m"]).get_spec(self.value(o["v"])).sheet = None if o["sh"] is None else SHEETS[o["sh"]]
        elif k == "setpath":
            self.model(o["m"]).get_spec(self.value(o["v"])).path = PATHS[o["p"]]
        elif k == "delspec":
            self.model(o["m"]).del_spec(self.value(o["v"]))
        elif k == "delspace":            # del model.S0 (ModelImpl.del_attr: the space of that name, else the reference)
            delattr(self.model(o["m"]), NAMES[o["s"]])
        elif k == "newscalarcells":
            self.owner(o["m"], o["s"]).new_cells(NAMES[o["n"]], formula="lambda: 1")
        else:
            raise RuntimeError("unknown op %r" % (o,))

    def adopt(self, mod, tok):
        """give [tok] to the (single) not yet known object bound in model [mod]"""
        for _, _, val in self.iter_refs(mod):
            if not self.known(val):
                self.vals[tok] = val
                return

    # -- observation --------------------------------------------------------
    def iter_refs(self, mod):
        for name, val in mod.refs.items():
            if name != "__builtins__":
                yield None, name, val
        for sname, sp in mod.spaces.items():
            for name, val in sp._own_refs.items():
                yield sname, name, val

    def midx(self, group):
        for i, mod in self.models.items():
            if mod is group:
                return i
        return 99

    @staticmethod
    def kind_of(io_):
        if type(io_).__name__ == "ModuleIO":
            return "module"
        ft = getattr(io_, "file_type", None)
        return ft if ft in ("csv", "excel") else "bad"

    def spec_view(self, m, spec):
        p = str(spec.path.as_posix())
        sh = getattr(spec, "sheet", None)
        return [m, RPATHS.get(p, p), self.kind_of(spec.io), None if sh is None else RSHEETS.get(sh, sh),
                self.token(spec.value)]

    def observe(self):
        iom = mx.core.mxsys.iomanager
        mgr, api, gs, refs, crash = [], [], [], [], []

        def guarded(part, f):
            try:
                f()
            except Exception as e:          # the public observers themselves must not raise
                crash.append("%s:%s" % (part, type(e).__name__))

        def do_mgr():
            for (group, path), io_ in list(iom.ios.items()):
                for spec in io_.specs.values():
                    mgr.append(self.spec_view(self.midx(group), spec))
        guarded("iomanager.ios", do_mgr)
        for i, mod in self.models.items():
            if i in self.closed:
                continue

            def do_api():
                for spec in mod.iospecs:
                    api.append(self.spec_view(i, spec))

            def do_gs():
                for tok, obj in list(self.vals.items()):
                    try:
                        mod.get_spec(obj)
                        gs.append([i, tok])
                    except ValueError:
                        pass

            def do_refs():
                for sname, name, val in self.iter_refs(mod):
                    if sname is None:
                        derived = False
                    else:
                        derived = bool(mx.get_object("%s.%s.%s" % (mod.name, sname, name), as_proxy=True).is_derived())
                    refs.append([i, None if sname is None else RNAMES[sname], RNAMES.get(name, name),
                                 self.token(val), derived])
            guarded("Model.iospecs", do_api)
            guarded("Model.get_spec", do_gs)
            guarded("refs", do_refs)
        try:
            mx.core.mxsys._check_sanity()
            sane = True
        except AssertionError:
            sane = False
        except Exception as e:    # a crash inside the sanity check is a failed check as well
            sane = "crash:%s" % type(e).__name__
        return {"mgr": sorted(mgr, key=repr), "api": sorted(api, key=repr), "gs": sorted(gs),
                "refs": sorted(refs, key=repr), "sane": sane, "crash": crash}

    # -- save / load round trip (property oracle only; pandas/openpyxl I/O) ------
    def roundtrip(self, tag):
        rep = []
        for i, mod in self.models.items():
            if i in self.closed:
                continue
            d = os.path.join(TMP, "rt_%d_%s_%d" % (os.getpid(), tag, i))
            shutil.rmtree(d, ignore_errors=True)
            entry = {"m": i, "ok": True, "detail": []}
            try:
                specs_before = sorted(self.spec_view(i, s)[:4] for s in mod.iospecs)
                mx.write_model(mod, d, backup=False)
                back = mx.read_model(d, name="R%d" % i)
                try:
                    specs_after = sorted([i] + self.spec_view(99, s)[1:4] for s in back.iospecs)
                    if specs_before != specs_after:
                        entry["ok"] = False
                        entry["detail"].append("spec set changed: %r -> %r" % (specs_before, specs_after))
                    for spec in mod.iospecs:
                        val = spec.value
                        p = spec.path
                        full = os.path.join(d, str(p))
                        if not os.path.exists(full):
                            entry["ok"] = False
                            entry["detail"].append("file %s of a live spec was not written" % p)
                        for sname, name, v in self.iter_refs(mod):
                            if v is not val:
                                continue
                            tgt = back if sname is None else back.spaces[sname]
                            try:
                                got = getattr(tgt, name)
                            except Exception as e:
                                entry["ok"] = False
                                entry["detail"].append("%s.%s missing after read: %s" % (sname, name, type(e).__name__))
                                continue
                            if isinstance(val, (pd.DataFrame, pd.Series)) and len(val) == 0:
                                # empty values: the file formats do not keep the dtypes of zero rows
                                same = type(got) is type(val) and len(got) == 0 and \
                                    (list(got.columns) == list(val.columns) if isinstance(val, pd.DataFrame) else got.name == val.name)
                            elif isinstance(val, (pd.DataFrame, pd.Series)):
                                same = type(got) is type(val) and val.equals(got)
                            elif isinstance(val, types.ModuleType):
                                same = isinstance(got, types.ModuleType) and inspect.getsource(got) == inspect.getsource(val)
                            else:
                                same = got == val
                            if not same:
                                entry["ok"] = False
                                entry["detail"].append("%s.%s read back different (spec %s sheet %r): %r vs %r"
                                                       % (sname, name, p, getattr(spec, "sheet", None),
                                                          str(val)[:60], str(got)[:60]))
                finally:
                    back.close()
            except Exception as e:
                entry["ok"] = False
                entry["detail"].append("save/load raised %s: %s" % (type(e).__name__, str(e)[:200]))
            finally:
                shutil.rmtree(d, ignore_errors=True)
            rep.append(entry)
        return rep

    def run(self, tag):
        obs = []
        rt_at = self.case.get("roundtrip_at")
        rts = []
        for k, o in enumerate(self.case["ops"]):
            try:
                self.apply(o)
                out, exc = "ok", None
            except Exception as e:
                out, exc = "err", type(e).__name__
            ob = self.observe()
            ob["out"], ob["exc"] = out, exc
            obs.append(ob)
            if rt_at is not None and k in rt_at:
                rts.append({"after": k, "rep": self.roundtrip("%s_%d" % (tag, k))})
        return {"obs": obs, "rt": rts}


def reset():
    """close every model (an operation of the property's vocabulary: it must not raise) and drop leaked specs"""
    exc = None
    sysm = mx.core.mxsys
    for mod in list(mx.get_models().values()):
        try:
            mod.close()
        except Exception as e:
            exc = "%s: %s" % (type(e).__name__, str(e)[:100])
            sysm.models.pop(mod.name, None)
            sysm.currentmodel = None
    iom = sysm.iomanager
    for key in list(iom.ios):       # leaks of recorded defects must not reach the next case
        del iom.ios[key]
    return exc


def main():
    cases = json.load(sys.stdin)
    os.makedirs(TMP, exist_ok=True)
    out = []
    reset()
    for n, case in enumerate(cases):
        try:
            out.append(Case(case).run(str(n)))
        except Exception as e:
            import traceback
            out.append({"crash": traceback.format_exc()[-1500:]})
        out[-1]["close_exc"] = reset()
    print("@@RESULT " + json.dumps(out))


main()
