"""Runs ItemSpace histories on the real modelx (property C07).

case = {"defs": [node, ...]   parents before children,
        "ops":  [op, ...]}
node = {"path": [names], "params": pform|None, "cells": [[name, [params], expr], ...], "refs": [[name, int], ...],
        "raw_params": "lambda ...: ..." (witnesses only),
        "bases": [path, ...] static spaces this one inherits from (inheritance class, (P) only; cells and references
                 are derived, child spaces are not)}
pform = {"sig": [[name, default|None], ...], "body": pbody}
pbody = None | {"base": [names]|None, "refs": [[name, pexpr], ...]} | ["if", pexpr, pbody, pbody]
pexpr = ["c", int] | ["p", name] | ["b", "+|-|*", pexpr, pexpr] | ["scall", path, cells] (call of a static cells; (P) only)
expr  = ["c", int] | ["n", name] | ["b", op, e, e] | ["if", c, a, b] | ["call", cells, [e...]] | ["child", X, cells, [e...]]
      | ["attr", X, name]  a reference of a child space read as X.name (inheritance class, (P) only)

op = {"op": "getitem", "par": {"s": path} | {"h": handle index}, "pos": [ints], "kw": {name: int}, "style": "idx"|"call"}
   | {"op": "child", "h": i, "name": X}            keep the child-space object
   | {"op": "eval", "h": i, "c": cells, "args": [ints]}
   | {"op": "takecells", "h": i, "c": cells}       keep the cells object
   | {"op": "setformula"|"newcells", "p": path, "c": name, "params": [...], "body": expr}
   | {"op": "delcells", "p": path, "c": name} | {"op": "setref", "p": path, "x": name, "v": int}
   | {"op": "delref", "p": path, "x": name} | {"op": "newspace", "q": path, "params": pform|None}
   | {"op": "delspace", "q": path} | {"op": "setparams", "p": path, "params": pform|None}
   | {"op": "setglobal", "x": name, "v": int} | {"op": "delglobal", "x": name}      references of the model
   | {"op": "clearitems", "p": path} | {"op": "delitem", "p": path, "key": [ints]}
   | {"op": "setref_obj", "p": path, "x": name, "target": path, "c": cells}   (witness D15 only)
   inheritance class ((P) only, generator dyninh.py):
   | {"op": "getref", "h": i, "x": name}           read a reference through a kept handle (h.x)
   | {"op": "newspace", ..., "bases": [path, ...]} | {"op": "addbases"|"removebases", "p": path, "bases": [path, ...]}
   | {"op": "audit"}    every kept handle that is still valid, and every instance re-requested by its recipe, is
                        compared member by member (references, cells values, dynamic child spaces, recursively)
                        with the same instance of a FRESH model of the current definitions -> step["audit"]
   case["inh"]: the final sweep is such an audit as well.

Every getitem / child operation reserves the next handle slot (None when the request failed); an operation on
an empty slot answers ["nohandle"] and is ignored by the checks.

result = {"steps": [{"out": ..., "live": [ikey...], "sh": [bool per space handle], "ch": [bool per cells handle],
                     "new": recipe of the handle obtained (or None), "same": [indices of earlier handles that are
                     the very same object], "fresh": outcome of the same request on a FRESH model built from the
                     current definitions (eval / getitem only)}],
          "sweep": [[recipe, cells, args, live outcome, fresh outcome], ...]  (all cells of all valid handles at the end;
                    audits add entries [recipe, "<what> member path", [], live, fresh] for members that differ),
          "crash": text}
out = ["val", int] | ["handle", key] | ["done"] | ["deleted"] | ["fail", exception type]
recipe = {"s": path, "steps": [["item", key] | ["child", X], ...]}"""
import sys, json, warnings, itertools
warnings.simplefilter("ignore")
import modelx as mx
from modelx.core.errors import DeletedObjectError


def close_all():
    mx.set_recalc(False)
    for m in list(mx.get_models().values()):
        try:
            m.close()
        except Exception:
            pass


# ---- rendering --------------------------------------------------------------
def r_expr(e):
    t = e[0]
    if t == "c":
        return "(%d)" % e[1]
    if t == "n":
        return e[1]
    if t == "b":
        return "(%s %s %s)" % (r_expr(e[2]), e[1], r_expr(e[3]))
    if t == "if":
        return "(%s if %s > 0 else %s)" % (r_expr(e[2]), r_expr(e[1]), r_expr(e[3]))
    if t == "call":
        return "%s(%s)" % (e[1], ", ".join(r_expr(a) for a in e[2]))
    if t == "child":
        return "%s.%s(%s)" % (e[1], e[2], ", ".join(r_expr(a) for a in e[3]))
    if t == "attr":       # a reference of a child space: (P)-only vocabulary (inheritance class)
        return "%s.%s" % (e[1], e[2])
    raise ValueError(e)


def r_pexpr(e):
    t = e[0]
    if t == "c":
        return "(%d)" % e[1]
    if t == "p":
        return e[1]
    if t == "b":
        return "(%s %s %s)" % (r_pexpr(e[2]), e[1], r_pexpr(e[3]))
    if t == "scall":      # call of a cells of a static space: (P)-only vocabulary, outside Dyn/Model.v
        return "_model.%s.%s()" % (".".join(e[1]), e[2])
    raise ValueError(e)


def r_pbody(b):
    if b is None:
        return "None"
    if isinstance(b, dict):
        items = []
        if b.get("base") is not None:
            items.append("'base': _model.%s" % ".".join(b["base"]))
        items.append("'refs': {%s}" % ", ".join("'%s': %s" % (x, r_pexpr(e)) for x, e in b.get("refs", [])))
        return "{%s}" % ", ".join(items)
    if b[0] == "if":
        return "(%s if %s > 0 else %s)" % (r_pbody(b[2]), r_pexpr(b[1]), r_pbody(b[3]))
    raise ValueError(b)


def r_pform(f):
    sig = ", ".join(x if d is None else "%s=%d" % (x, d) for x, d in f["sig"])
    return "lambda %s: %s" % (sig, r_pbody(f["body"]))


def r_cells(params, body):
    return "lambda %s: %s" % (", ".join(params), r_expr(body))


# ---- building ----------------------------------------------------------------
def nav_static(m, path):
    o = m
    for x in path:
        o = o.spaces[x]
    return o


def add_node(m, nd, with_bases=True):
    parent = nav_static(m, nd["path"][:-1])
    if nd.get("raw_params"):
        formula = nd["raw_params"]
    elif nd.get("params"):
        formula = r_pform(nd["params"])
    else:
        formula = None
    if with_bases and nd.get("bases"):
        sp = parent.new_space(nd["path"][-1], formula=formula, bases=[nav_static(m, b) for b in nd["bases"]])
    else:
        sp = parent.new_space(nd["path"][-1], formula=formula)
    for x, v in nd.get("refs", []):
        setattr(sp, x, v)
    for c, ps, body in nd.get("cells", []):
        if c in sp.cells:      # a derived cells (inheritance class): setting its formula makes it the sub space's own
            sp.cells[c].formula = r_cells(ps, body)
        else:
            sp.new_cells(c, formula=r_cells(ps, body))
    return sp


_count = [0]


def build(defs, globs=None):
    _count[0] += 1
    m = mx.new_model("M%d" % _count[0])
    for x, v in (globs or {}).items():
        setattr(m, x, v)
    made, late = set(), []
    for nd in defs:
        ready = all(tuple(b) in made for b in nd.get("bases") or [])
        add_node(m, nd, with_bases=ready)      # a base created after its sub space (add_bases in the history)
        if not ready:
            late.append(nd)
        made.add(tuple(nd["path"]))
    for nd in late:
        nav_static(m, nd["path"]).add_bases(*[nav_static(m, b) for b in nd["bases"]])
    return m


def outcome(f):
    try:
        v = f()
    except DeletedObjectError:
        return ["deleted"], None
    except BaseException as e:
        err = mx.get_error() if type(e).__name__ == "FormulaError" else e
        if isinstance(err, DeletedObjectError):
            return ["deleted"], None
        return ["fail", type(err).__name__], None
    return None, v


def valout(v):
    if isinstance(v, bool) or not isinstance(v, int):
        return ["fail", "NotAnInt:" + type(v).__name__]
    return ["val", v]


def nav_recipe(m, rec):
    o = nav_static(m, rec["s"])
    for kind, a in rec["steps"]:
        o = o(*a) if kind == "item" else getattr(o, a)
    return o


def walk_live(m):
    """every live ItemSpace reachable through .itemspaces, as ikeys [static path, [[child path, key], ...]]"""
    res = []

    def dyn(sp, spath, its):
        def rec(d, cp):
            for it in list(d.itemspaces.values()):
                key = [int(a) for a in it.argvalues]
                k2 = its + [[cp, key]]
                res.append([spath, k2])
                dyn(it, spath, k2)
            for x, ch in d.named_spaces.items():
                rec(ch, cp + [x])
        rec(sp, [])

    def stat(sp, spath):
        for it in list(sp.itemspaces.values()):
            key = [int(a) for a in it.argvalues]
            res.append([spath, [[[], key]]])
            dyn(it, spath, [[[], key]])
        for x, ch in sp.named_spaces.items():
            stat(ch, spath + [x])

    for x, sp in m.spaces.items():
        stat(sp, [x])
    return res


from dynmirror import apply_edit


# ---- audits (inheritance class): a space compared member by member ------------
def snap(sp, depth=0):
    """what a space serves: references (by attribute access and through .refs), every cells at a few arguments,
    the dynamic child spaces (recursively), as a flat {member path: outcome}"""
    res = {}
    err, names = outcome(lambda: sorted(k for k in sp.refs if k != "__builtins__"))
    if err:
        return {"<refs>": err}
    for x in names:
        err, v = outcome(lambda: getattr(sp, x))
        res["." + x] = err if err else (["val", v] if isinstance(v, int) and not isinstance(v, bool) else ["obj", type(v).__name__])
        err, v = outcome(lambda: sp.refs[x])
        res[".refs[%s]" % x] = err if err else (["val", v] if isinstance(v, int) and not isinstance(v, bool) else ["obj", type(v).__name__])
    res["<refs>"] = ["names", names]
    res["<cells>"] = ["names", sorted(sp.cells)]
    for cname in sorted(sp.cells):
        arity = len(sp.cells[cname].parameters)
        for args in itertools.product((0, 2), repeat=arity) if arity <= 2 else [(1,) * arity]:
            err, v = outcome(lambda: getattr(sp, cname)(*args))
            res[".%s%s" % (cname, tuple(args))] = err if err else valout(v)
    res["<spaces>"] = ["names", sorted(sp.named_spaces)]
    if depth < 3:
        for x in sorted(sp.named_spaces):
            for k, v in snap(sp.named_spaces[x], depth + 1).items():
                res[".%s%s" % (x, k)] = v
    return res


def audit(m, fresh_model, handles, recipes, limit=6, count=None):
    """[recipe, what, [], live, fresh] for every member on which a kept valid handle, or the instance requested again
    by its recipe, differs from the same instance of the fresh model"""
    diffs = []
    seen = []
    for h, rec in zip(handles, recipes):
        if h is None:
            continue
        ferr, fh = outcome(lambda: nav_recipe(fresh_model(), rec))
        fsnap = None if ferr else snap(fh)
        views = []
        if h._is_valid():
            views.append(("kept handle", None, h))
        if rec not in seen:                       # the instance reached again from the static space
            seen.append(rec)
            err, again = outcome(lambda: nav_recipe(m, rec))
            views.append(("requested again", err, again))
        for what, err, obj in views:
            if err or ferr:
                if err != ferr:
                    diffs.append([rec, "<%s>" % what, [], err or ["valid"], ferr or ["valid"]])
                continue
            if what == "requested again" and h._is_valid() and obj is not h:
                diffs.append([rec, "<identity: the kept handle is valid but the instance requested again is another object>",
                              [], ["other"], ["same"]])
            live = snap(obj)
            if count is not None:
                count[0] += len(fsnap)
            for k in sorted(set(live) | set(fsnap)):
                if live.get(k) != fsnap.get(k):
                    diffs.append([rec, "<%s> %s" % (what, k), [], live.get(k), fsnap.get(k)])
                    if len(diffs) >= limit:
                        return diffs
    return diffs


def run_case(case):
    close_all()
    defs = json.loads(json.dumps(case["defs"]))
    globs = {}
    m = build(defs)
    mx.set_recalc(bool(case.get("recalc")))
    fresh = [None]          # fresh model of the current definitions, rebuilt lazily after an edit

    def fresh_model():
        if fresh[0] is None:
            fresh[0] = build(defs, globs)
        return fresh[0]

    handles, recipes = [], []      # space handles
    chandles = []                  # cells handles
    steps = []
    ncmp = [0]                     # members compared by audits
    for op in case["ops"]:
        k = op["op"]
        st = {"new": None, "same": None, "fresh": None}
        if k in ("getitem", "child", "eval", "takecells", "getref") and "h" in (op["par"] if k == "getitem" else op) \
                and handles[(op["par"] if k == "getitem" else op)["h"]] is None:
            st["out"] = ["nohandle"]
            if k in ("getitem", "child"):
                handles.append(None); recipes.append(None)
        elif k == "getitem":
            par = op["par"]
            if "s" in par:
                prec = {"s": par["s"], "steps": []}
                getpar = lambda: nav_static(m, par["s"])
            else:
                prec = recipes[par["h"]]
                getpar = lambda: handles[par["h"]]
            pos, kw = op["pos"], op["kw"]

            def req(parent):
                if op["style"] == "idx":
                    return parent[pos[0] if len(pos) == 1 else tuple(pos)]
                return parent(*pos, **kw)
            err, v = outcome(lambda: req(getpar()))
            if err:
                st["out"] = err
                handles.append(None); recipes.append(None)
            else:
                key = [int(a) for a in v.argvalues]
                st["out"] = ["handle", key]
                rec = {"s": prec["s"], "steps": prec["steps"] + [["item", key]]}
                st["same"] = [i for i, h in enumerate(handles) if h is v]
                st["new"] = rec
                handles.append(v); recipes.append(rec)
            if st["out"][0] != "deleted":
                ferr, fv = outcome(lambda: req(nav_recipe(fresh_model(), prec)))
                st["fresh"] = ferr if ferr else ["handle", [int(a) for a in fv.argvalues]]
        elif k == "child":
            err, v = outcome(lambda: getattr(handles[op["h"]], op["name"]))
            if err is None and not hasattr(v, "named_spaces"):
                err = ["fail", "NotASpace"]
            if err:
                st["out"] = err
                handles.append(None); recipes.append(None)
            else:
                st["out"] = ["done"]
                rec = {"s": recipes[op["h"]]["s"], "steps": recipes[op["h"]]["steps"] + [["child", op["name"]]]}
                st["same"] = [i for i, h in enumerate(handles) if h is v]
                st["new"] = rec
                handles.append(v); recipes.append(rec)
        elif k == "eval":
            h = handles[op["h"]]
            err, v = outcome(lambda: getattr(h, op["c"])(*op["args"]))
            st["out"] = err if err else valout(v)
            if st["out"][0] != "deleted":
                ferr, fv = outcome(lambda: getattr(nav_recipe(fresh_model(), recipes[op["h"]]), op["c"])(*op["args"]))
                st["fresh"] = ferr if ferr else valout(fv)
        elif k == "getref":
            h = handles[op["h"]]
            err, v = outcome(lambda: getattr(h, op["x"]))
            st["out"] = err if err else valout(v)
            if st["out"][0] != "deleted":
                ferr, fv = outcome(lambda: getattr(nav_recipe(fresh_model(), recipes[op["h"]]), op["x"]))
                st["fresh"] = ferr if ferr else valout(fv)
        elif k == "audit":
            st["out"] = ["done"]
            st["audit"] = audit(m, fresh_model, handles, recipes, count=ncmp)
        elif k == "takecells":
            err, v = outcome(lambda: handles[op["h"]].cells[op["c"]])
            if err:
                st["out"] = err
            else:
                st["out"] = ["done"]
                chandles.append(v)
        else:
            def edit():
                if k in ("setformula",):
                    nav_static(m, op["p"]).cells[op["c"]].formula = r_cells(op["params"], op["body"])
                elif k == "newcells":
                    nav_static(m, op["p"]).new_cells(op["c"], formula=r_cells(op["params"], op["body"]))
                elif k == "delcells":
                    delattr(nav_static(m, op["p"]), op["c"])
                elif k == "setref":
                    setattr(nav_static(m, op["p"]), op["x"], op["v"])
                elif k == "setref_obj":
                    setattr(nav_static(m, op["p"]), op["x"], getattr(nav_static(m, op["target"]), op["c"]))
                elif k == "delref":
                    delattr(nav_static(m, op["p"]), op["x"])
                elif k == "newspace" and op.get("bases"):
                    nav_static(m, op["q"][:-1]).new_space(op["q"][-1], formula=r_pform(op["params"]) if op["params"] else None,
                                                          bases=[nav_static(m, b) for b in op["bases"]])
                elif k == "newspace":
                    nav_static(m, op["q"][:-1]).new_space(op["q"][-1], formula=r_pform(op["params"]) if op["params"] else None)
                elif k == "addbases":
                    nav_static(m, op["p"]).add_bases(*[nav_static(m, b) for b in op["bases"]])
                elif k == "removebases":
                    nav_static(m, op["p"]).remove_bases(*[nav_static(m, b) for b in op["bases"]])
                elif k == "delspace":
                    delattr(nav_static(m, op["q"][:-1]), op["q"][-1])
                elif k == "setparams":
                    sp = nav_static(m, op["p"])
                    if op["params"]:
                        sp.formula = r_pform(op["params"])
                    else:
                        del sp.formula
                elif k == "setglobal":
                    setattr(m, op["x"], op["v"])
                elif k == "delglobal":
                    delattr(m, op["x"])
                elif k == "clearitems":
                    nav_static(m, op["p"]).clear_items()
                elif k == "delitem":
                    sp = nav_static(m, op["p"])
                    del sp[op["key"][0] if len(op["key"]) == 1 else tuple(op["key"])]
                else:
                    raise ValueError("unknown op " + k)
            err, _ = outcome(edit)
            if err:
                st["out"] = ["rejected", err[-1]]
            else:
                st["out"] = ["done"]
                if k not in ("clearitems", "delitem", "setref_obj"):
                    apply_edit(defs, op, globs)
                    if fresh[0] is not None:
                        try:
                            fresh[0].close()
                        except Exception:
                            pass
                    fresh[0] = None
        st["live"] = walk_live(m)
        st["sh"] = [None if h is None else bool(h._is_valid()) for h in handles]
        st["ch"] = [bool(c._is_valid()) for c in chandles]
        steps.append(st)
    # final sweep: every cells of every valid handle against the fresh model
    sweep = []
    if case.get("sweep", True):
        for h, rec in zip(handles, recipes):
            if h is None or not h._is_valid():
                continue
            for cname in list(h.cells):
                arity = len(h.cells[cname].parameters)
                for args in itertools.product((0, 2), repeat=arity) if arity <= 2 else [(1,) * arity]:
                    err, v = outcome(lambda: getattr(h, cname)(*args))
                    a = err if err else valout(v)
                    ferr, fv = outcome(lambda: getattr(nav_recipe(fresh_model(), rec), cname)(*args))
                    b = ferr if ferr else valout(fv)
                    sweep.append([rec, cname, list(args), a, b])
            # members of the live handle vs the fresh one
            err, fh = outcome(lambda: nav_recipe(fresh_model(), rec))
            if err is None:
                a = [sorted(h.cells), sorted(h.named_spaces)]
                b = [sorted(fh.cells), sorted(fh.named_spaces)]
                if a != b:
                    sweep.append([rec, "<members>", [], ["members", a], ["members", b]])
            else:
                sweep.append([rec, "<members>", [], ["valid"], err])
        if case.get("inh"):
            sweep += audit(m, fresh_model, handles, recipes, count=ncmp)
    return {"steps": steps, "sweep": sweep, "audited_members": ncmp[0]}


def main():
    cases = json.load(sys.stdin)
    res = []
    for c in cases:
        try:
            if "script" in c:
                close_all()
                env = {"mx": mx, "DeletedObjectError": DeletedObjectError}
                exec(c["script"], env)
                res.append({"fails": bool(env.get("FAILS")), "info": str(env.get("INFO", ""))[:300]})
            else:
                res.append(run_case(c))
        except BaseException as e:
            import traceback
            res.append({"crash": "%s: %s\n%s" % (type(e).__name__, e, traceback.format_exc()[-1500:])})
    close_all()
    print("@@RESULT " + json.dumps(res))


if __name__ == "__main__":
    main()
