"""C10 driver: runs the REAL modelx.  stdin: JSON list of cases; stdout: "@@RESULT " + json.

case kinds
  {"kind": "getrel", "nodes": [dotted...], "bases": {dotted: [dotted...]}, "sub", "bas", "value"}
      -> {"res": ["some", dotted] | ["none"] | ["fail"] | ["exc", type], "mro": {node: [bases in MRO order]}}
      (a stand-alone SpaceGraph; get_relative / get_mro are called directly)
  {"kind": "history", "ops": [...], "refnames": [...]}
      ops: ["space", path, [bases]] ["addb", path, [bases]] ["rmb", path, [bases]] ["cells", path, name]
           ["setref", path, name, mode, target, via] ["delref", path, name] ["params", path]
           ["obs", [roots]] ["roundtrip", "dir"|"zip"]
      -> {"ops": [status...], "tables": {opindex: table}, "obs": {opindex: observation}}
  {"kind": "script", "script": python source defining check(mx) -> None | "what fails"}
"""
import sys, os, json, shutil, warnings, traceback

warnings.simplefilter("ignore")
import modelx as mx
from modelx.core.base import Interface
from modelx.core.model import SpaceGraph

TMP = os.path.join(os.getcwd(), "C10tmp", "w%d" % os.getpid())


def reset():
    for m in list(mx.get_models().values()):
        try:
            m.close()
        except Exception:
            pass


def errkind(e):
    s = str(e)
    orig = None
    try:
        orig = mx.get_error()
    except Exception:
        pass
    if type(e).__name__ == "FormulaError" and orig is not None:
        e, s = orig, str(orig)
    t = type(e).__name__
    if t == "ValueError" and ("out of scope" in s or "Cannot create relative reference" in s or "is out of" in s):
        return "scope"
    if t == "RuntimeError" and "must not happen" in s:
        return "broken"
    return "other:%s:%s" % (t, s[:120])


# ---------------------------------------------------------------------------
def run_getrel(c):
    g = SpaceGraph()
    for n in c["nodes"]:
        g.add_node(n)
    for sub, bs in c["bases"].items():
        for i, b in enumerate(bs):
            g.add_edge(b, sub, index=i + 1)
    out = {}
    try:
        r = g.get_relative(c["sub"], c["bas"], c["value"])
        out["res"] = ["none"] if r is None else ["some", r]
    except RuntimeError as e:
        out["res"] = ["fail"] if "must not happen" in str(e) else ["exc", "RuntimeError"]
    except Exception as e:
        out["res"] = ["exc", type(e).__name__]
    out["mro"] = {n: g.get_mro(n)[1:] for n in c["nodes"]}
    return out


# ---------------------------------------------------------------------------
def relpath(obj):
    fn = obj.fullname.split(".")
    return fn[1:]


def resolve(root, path):
    obj = root
    for n in path:
        if n in obj.spaces:
            obj = obj.spaces[n]
        elif n in obj.cells:
            obj = obj.cells[n]
        else:
            return None
    return obj


def all_spaces(m):
    out = []

    def walk(p):
        for s in p.spaces.values():
            if type(s).__name__ == "UserSpace":
                out.append(s)
                walk(s)
    walk(m)
    return out


def table_of(m):
    return {".".join(relpath(s)): [".".join(relpath(b)) for b in s.bases] for s in all_spaces(m)}


def proxy_of(m, sp, n):
    try:
        impl = sp._impl.own_refs.get(n) if n in sp._impl.own_refs else None
    except Exception:
        impl = None
    if impl is None:
        return None
    return mx.get_object(sp.fullname + "." + n, as_proxy=True)


def describe_value(v):
    if isinstance(v, Interface):
        if not v._is_valid():
            return ["deleted"]
        return ["obj", relpath(v)]
    return ["val", repr(v)[:40]]


def is_prefix(p, l):
    return l[:len(p)] == p


def simple_roots(sp, b):
    """no proper aligned pair of ancestors (same trailing names cut) is related by inheritance"""
    s, d = sp, b
    while True:
        if s.name != d.name:
            return True
        s, d = s.parent, d.parent
        if type(s).__name__ != "UserSpace" or type(d).__name__ != "UserSpace":
            return True
        if d is s or any(x is d for x in s.bases):
            return False


def observe(m, refnames, roots):
    static, pf, skipped = [], [], 0
    spaces = all_spaces(m)
    for sp in spaces:
        for n in refnames:
            pr = proxy_of(m, sp, n)
            if pr is None:
                continue
            val = pr.value
            d = describe_value(val)
            static.append([relpath(sp), n, bool(pr.is_derived()), pr.refmode if isinstance(pr.refmode, str) else repr(pr.refmode),
                           d, bool(pr._impl.is_relative)])
            # ---- (P) the property text on the implementation
            where = "%s.%s" % (sp.fullname, n)
            try:
                attr = getattr(sp, n)
            except Exception as e:
                pf.append("%s: attribute access raises %s" % (where, type(e).__name__))
                continue
            if attr is not val:
                pf.append("%s: attribute is not the reference's value" % where)
            if not pr.is_derived():
                continue
            definer = None
            for b in sp.bases:
                bp = proxy_of(m, b, n)
                if bp is not None and not bp.is_derived():
                    definer, dp = b, bp
                    break
            if definer is None:
                pf.append("%s: derived reference without a defining base" % where)
                continue
            if pr.refmode != dp.refmode:
                pf.append("%s: mode %r differs from the mode %r of the defining %s" % (where, pr.refmode, dp.refmode, definer.fullname))
            tobj = dp.value
            if not isinstance(tobj, Interface):
                continue
            if not tobj._is_valid():
                pf.append("%s: defining reference holds a deleted object" % where)
                continue
            tp, bp_ = relpath(tobj), relpath(definer)
            if dp.refmode == "absolute":
                if val is not tobj:
                    pf.append("%s: absolute reference is %s, not the original %s" % (where, d, tobj.fullname))
            elif dp.refmode in ("auto", "relative"):
                if is_prefix(bp_, tp):
                    exp = resolve(sp, tp[len(bp_):])
                    if exp is None:
                        # no corresponding object (yet): the reference must not denote anything else
                        if d != ["deleted"]:
                            pf.append("%s: no corresponding object %s below %s but the reference is %s" % (where, tp[len(bp_):], sp.fullname, d))
                    elif val is not exp:
                        pf.append("%s: %s reference to %s (inside %s) is %s, not the corresponding %s"
                                  % (where, dp.refmode, tobj.fullname, definer.fullname, d, exp.fullname))
                elif simple_roots(sp, definer):
                    if val is not tobj:
                        pf.append("%s: %s reference to %s (outside %s) is %s, not the original object"
                                  % (where, dp.refmode, tobj.fullname, definer.fullname, d))
                else:
                    skipped += 1
    dyn = []
    for rp in roots:
        root = resolve(m, rp)
        try:
            root.clear_items()       # a FRESH ItemSpace (freshness of live ItemSpaces is C07 / D16)
            item = root[1]
        except Exception as e:
            dyn.append([rp, False, errkind(e), []])
            continue
        ip = item.fullname.split(".")[1:]
        entries = []

        def walk(ds, q):
            s = resolve(root, q)
            for n in refnames:
                pr = proxy_of(m, s, n)
                if pr is None:
                    continue
                where = "%s.%s" % (ds._evalrepr, n)
                try:
                    v = getattr(ds, n)
                except Exception as e:
                    entries.append([q, n, ["exc", errkind(e)]])
                    continue
                if isinstance(v, Interface) and v._is_valid():
                    vp = v.fullname.split(".")[1:]
                    if is_prefix(ip, vp):
                        entries.append([q, n, ["dyn", vp[len(ip):]]])
                    else:
                        entries.append([q, n, ["static", vp]])
                else:
                    entries.append([q, n, describe_value(v)])
                # (P): objects inside the base's tree -> the corresponding dynamic object
                sval = pr.value
                if isinstance(sval, Interface) and sval._is_valid() and isinstance(pr.refmode, str):
                    tp = relpath(sval)
                    if pr.refmode != "absolute" and is_prefix(rp, tp):
                        exp = item
                        for x in tp[len(rp):]:
                            exp = exp.spaces[x] if x in exp.spaces else (exp.cells[x] if x in exp.cells else None)
                            if exp is None:
                                break
                        if exp is None or v is not exp:
                            pf.append("%s: %s reference to %s (inside the base's tree) is %r, not the corresponding dynamic object"
                                      % (where, pr.refmode, sval.fullname, entries[-1][2]))
                    elif v is not sval:
                        pf.append("%s: reference to %s (absolute or outside the tree) is %r, not the original object"
                                  % (where, sval.fullname, entries[-1][2]))
            for cn, child in ds.spaces.items():
                if type(child).__name__ == "DynamicSpace":
                    walk(child, q + [cn])
        try:
            walk(item, [])
            dyn.append([rp, True, "", entries])
        except Exception as e:
            dyn.append([rp, False, "walk:" + errkind(e), entries])
        try:
            root.clear_items()       # no live ItemSpace survives into the following edits (C07 / D16)
        except Exception:
            pass
    return {"static": static, "dyn": dyn, "p": pf, "p_skipped": skipped}


def run_history(c):
    reset()
    m = mx.new_model("M")
    res = {"ops": [], "tables": {}, "obs": {}}
    refnames = c["refnames"]
    for i, op in enumerate(c["ops"]):
        k = op[0]
        try:
            if k == "space":
                parent = resolve(m, op[1][:-1])
                bs = [resolve(m, b) for b in op[2]]
                parent.new_space(op[1][-1], bases=bs if bs else None)
            elif k == "addb":
                resolve(m, op[1]).add_bases(*[resolve(m, b) for b in op[2]])
            elif k == "rmb":
                resolve(m, op[1]).remove_bases(*[resolve(m, b) for b in op[2]])
            elif k == "cells":
                resolve(m, op[1]).new_cells(op[2], formula="lambda x: x")
            elif k == "setref":
                sp, n, mode, tg = resolve(m, op[1]), op[2], op[3], resolve(m, op[4])
                via = op[5] if len(op) > 5 else "set_ref"
                if via == "attr" and mode == "auto":
                    setattr(sp, n, tg)
                elif via == "kw" and mode == "absolute":
                    sp.absref(**{n: tg})
                elif via == "kw" and mode == "relative":
                    sp.relref(**{n: tg})
                else:
                    sp.set_ref(n, tg, refmode=mode)
            elif k == "delref":
                delattr(resolve(m, op[1]), op[2])
            elif k == "params":
                resolve(m, op[1]).parameters = ("i",)
            elif k == "obs":
                res["obs"][str(i)] = observe(m, refnames, op[1])
            elif k == "roundtrip":
                d = os.path.join(TMP, "m%d" % i)
                shutil.rmtree(d, ignore_errors=True)
                os.makedirs(TMP, exist_ok=True)
                if op[1] == "zip":
                    d += ".zip"
                    mx.zip_model(m, d)
                else:
                    mx.write_model(m, d)
                m.close()
                m = mx.read_model(d, name="M")
            else:
                raise RuntimeError("unknown op %r" % (op,))
            res["ops"].append("ok")
            if k in ("space", "addb", "rmb", "roundtrip"):
                res["tables"][str(i)] = table_of(m)
        except Exception as e:
            res["ops"].append(errkind(e))
            if k in ("obs", "roundtrip"):
                res["ops"][-1] += " | " + traceback.format_exc()[-600:]
    reset()
    return res


def run_script(c):
    reset()
    ns = {}
    try:
        exec(c["script"], ns)
        r = ns["check"](mx)
        out = {"fails": r}
    except Exception as e:
        out = {"fails": "raised %s: %s" % (type(e).__name__, str(e)[:200])}
    reset()
    return out


def main():
    out = []
    for c in json.load(sys.stdin):
        try:
            if c["kind"] == "getrel":
                out.append(run_getrel(c))
            elif c["kind"] == "history":
                out.append(run_history(c))
            else:
                out.append(run_script(c))
        except Exception as e:
            out.append({"crash": traceback.format_exc()[-1500:]})
    shutil.rmtree(TMP, ignore_errors=True)
    print("@@RESULT " + json.dumps(out))


main()
