"""runs modelx.core.util path functions on the given cases"""
import sys, json
from modelx.core.util import abs_to_rel, rel_to_abs, abs_to_rel_tuple, rel_to_abs_tuple
def safe(f, *a):
    try:
        return ["ok", f(*a)]
    except Exception as e:
        return ["err", type(e).__name__]
out = []
for c in json.load(sys.stdin):
    tg, ns = c["tg"], c["ns"]
    r = {}
    r["a2r"] = safe(abs_to_rel, ".".join(tg), ".".join(ns))
    r["a2rt"] = safe(lambda: list(abs_to_rel_tuple(tuple(tg), tuple(ns))))
    if r["a2r"][0] == "ok":
        r["r2a"] = safe(rel_to_abs, r["a2r"][1], ".".join(ns))
    if r["a2rt"][0] == "ok":
        r["r2at"] = safe(lambda: list(rel_to_abs_tuple(tuple(r["a2rt"][1]), tuple(ns))))
    # free-standing rel_to_abs on an arbitrary relative name
    r["r2a_free"] = safe(rel_to_abs, c["rel"], ".".join(ns))
    out.append(r)
print("@@RESULT " + json.dumps(out))
