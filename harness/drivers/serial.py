"""C04 driver: builds a model from a generated program on the REAL modelx,
describes it through the public API, writes it to a directory and to a zip
archive, reads both back, chains write-read-write, and reports every
observation as JSON.  stdin: JSON list of cases; stdout: "@@RESULT " + json.

Case: {"id", "name", "ops": [...], "probes": [[steps, args], ...],
       "eval_before": bool, "chain": bool, "lex": [doc, ...] (optional)}
steps = path below the model: list of names and ["item", [args...]] entries.
"""
import sys, os, json, hashlib, shutil, zipfile, math, ast, warnings, types, traceback
import fractions, decimal, datetime, collections

warnings.simplefilter("ignore")
import modelx as mx
from modelx.core.base import Interface
from modelx.serialize import ziputil

TMPROOT = os.path.join(os.environ.get("C04_TMP") or os.path.join(os.getcwd(), "C04tmp"), "w%d" % os.getpid())


# --------------------------------------------------------------------------
# canonical description
# --------------------------------------------------------------------------
def relname(obj):
    """dotted name below the model ('' for the model itself)"""
    fn = obj.fullname
    i = fn.find(".")
    return "" if i < 0 else fn[i + 1:]


def canon(v, depth=0):
    if depth > 8:
        return ["deep"]
    if isinstance(v, Interface):
        if not v._is_valid():
            return ["nullobj"]
        return ["obj", type(v).__name__, relname(v)]
    t = type(v)
    if v is None or t is bool or t is int or t is str:
        return ["lit", t.__name__, repr(v)]
    if t is float:
        return ["lit", "float", repr(v)]
    if t in (list, tuple):
        return [t.__name__, [canon(x, depth + 1) for x in v]]
    if t in (set, frozenset):
        return [t.__name__, sorted((canon(x, depth + 1) for x in v), key=lambda c: json.dumps(c, sort_keys=True))]
    if t in (dict, collections.OrderedDict):
        return [t.__name__, [[canon(k, depth + 1), canon(x, depth + 1)] for k, x in v.items()]]
    if isinstance(v, types.ModuleType):
        return ["module", v.__name__]
    return ["py", t.__module__ + "." + t.__qualname__, repr(v)]


def cell_items(cells):
    """(argument tuple, value) of every held value, through the public mapping protocol"""
    one = len(cells.parameters) == 1
    out = []
    for k in list(cells):
        args = (k,) if one else tuple(k)
        out.append((args, cells[k] if one else cells(*args)))
    return out


def inputs_of(cells):
    out = []
    for args, v in cell_items(cells):
        if cells.is_input(*args):
            out.append([canon(args), canon(v)])
    out.sort(key=lambda c: json.dumps(c, sort_keys=True))
    return out


def desc_cells(c, with_cache):
    f = c.formula
    d = {"formula": f.source if f is not None else None,
         "parameters": list(c.parameters),
         "allow_none": c.allow_none, "is_cached": c.is_cached, "doc": c.doc,
         "derived": bool(c._is_derived()),
         "inputs": inputs_of(c)}
    if with_cache:
        d["cache_keys"] = sorted(json.dumps([canon(a), canon(v)]) for a, v in cell_items(c))
    return d


def desc_ref(owner, name, is_model):
    r = owner._get_object(name, as_proxy=True)
    v = r.value
    d = {"value": canon(v)}
    if not is_model:
        d["refmode"] = r.refmode
        d["derived"] = bool(r.is_derived())
    return d


def desc_dynamic(sp, with_cache):
    """inputs held inside a dynamic space (ItemSpace or a child of one); None when there is none"""
    cells = {}
    for n, c in sp.cells.items():
        ins = inputs_of(c)
        if ins:
            cells[n] = ins
    spaces = {}
    for n, s in sp.named_spaces.items():
        d = desc_dynamic(s, with_cache)
        if d is not None:
            spaces[n] = d
    items = desc_items(sp, with_cache)
    if not cells and not spaces and not items:
        return None
    return {"cells": cells, "spaces": spaces, "items": items}


def desc_items(sp, with_cache):
    items = []
    for n, it in sp._named_itemspaces.items():
        d = desc_dynamic(it, with_cache)
        if d is not None:
            items.append([canon(tuple(it.argvalues)), d])
    items.sort(key=lambda c: json.dumps(c, sort_keys=True))
    return items


def desc_space(s, with_cache):
    f = s.formula
    d = {"doc": s.doc, "allow_none": s.allow_none,
         "formula": f.source if f is not None else None,
         "parameters": list(s.parameters) if s.parameters is not None else None,
         "bases": [relname(b) for b in s._direct_bases],
         "mro": [relname(b) for b in s.bases],
         "cells": {n: desc_cells(c, with_cache) for n, c in s.cells.items()},
         "cells_order": list(s.cells.keys()),
         "refs": {n: desc_ref(s, n, False) for n in s._own_refs.keys() if n[0] != "_"},
         "spaces": {n: desc_space(c, with_cache) for n, c in s.spaces.items()},
         "spaces_order": list(s.spaces.keys()),
         "items": desc_items(s, with_cache)}
    if with_cache:
        d["n_items"] = len(s._named_itemspaces)
    return d


def describe(m, with_cache=False):
    return {"name": m.name, "doc": m.doc, "allow_none": m.allow_none,
            "refs": {n: desc_ref(m, n, True) for n in m.refs.keys() if n[0] != "_"},
            "spaces": {n: desc_space(s, with_cache) for n, s in m.spaces.items()},
            "spaces_order": list(m.spaces.keys())}


# --------------------------------------------------------------------------
# building
# --------------------------------------------------------------------------
def resolve(m, steps):
    o = m
    for st in steps:
        if isinstance(st, list):
            o = o[tuple(mkkey(st[1]))] if len(st[1]) != 1 else o[mkkey(st[1])[0]]
        else:
            o = getattr(o, st) if not isinstance(o, mx.core.model.Model) else (
                o.spaces[st] if st in o.spaces else getattr(o, st))
    return o


def mkkey(k):
    """JSON key -> python args (lists become tuples)"""
    return [tuple(mkkey(x)) if isinstance(x, list) else x for x in k]


import http, signal
import c15lits
PYENV = {"HTTPStatus": http.HTTPStatus, "Signals": signal.Signals, "c15lits": c15lits, "Fraction": fractions.Fraction, "Decimal": decimal.Decimal, "date": datetime.date,
         "OrderedDict": collections.OrderedDict, "float": float, "frozenset": frozenset,
         "set": set, "range": range, "complex": complex, "bytes": bytes, "math": math}


def mkval(m, spec):
    t = spec["t"]
    if t == "lit":
        return spec["v"]
    if t == "py":
        return eval(spec["e"], dict(PYENV))
    if t == "obj":
        return resolve(m, spec["path"])
    if t == "mix":      # picklable container holding model objects
        objs = [resolve(m, p) for p in spec["paths"]]
        return eval(spec["e"], dict(PYENV, o=objs))
    if t == "module":
        import importlib
        return importlib.import_module(spec["name"])
    raise ValueError(t)


def apply_op(m, op):
    k = op["op"]
    if k == "model":
        if "doc" in op:
            m.doc = op["doc"]
        if "allow_none" in op:
            m.allow_none = op["allow_none"]
    elif k == "space":
        parent = resolve(m, op["parent"])
        kw = {}
        if op.get("formula") is not None:
            kw["formula"] = op["formula"]
        if op.get("bases"):
            kw["bases"] = [resolve(m, b) for b in op["bases"]]
        s = parent.new_space(op["name"], **kw)
        if "doc" in op:
            s.doc = op["doc"]
        if op.get("allow_none") is not None:
            s.allow_none = op["allow_none"]
    elif k == "add_bases":
        resolve(m, op["space"]).add_bases(*[resolve(m, b) for b in op["bases"]])
    elif k == "cells":
        s = resolve(m, op["space"])
        c = s.new_cells(op["name"], formula=op["formula"])
        if op.get("allow_none") is not None:
            c.allow_none = op["allow_none"]
        if op.get("is_cached") is False:
            c.is_cached = False
        if op.get("doc") is not None:
            c.doc = op["doc"]
    elif k == "ref":
        owner = resolve(m, op["owner"])
        v = mkval(m, op["value"])
        if not op["owner"]:
            setattr(owner, op["name"], v)
        elif op.get("how") == "attr":
            setattr(owner, op["name"], v)
        else:
            owner.set_ref(op["name"], v, refmode=op.get("refmode", "auto"))
    elif k == "input":
        c = resolve(m, op["cells"])
        key = mkkey(op["key"])
        v = mkval(m, op["value"])
        if len(key) == 0:
            c.value = v
        elif len(key) == 1:
            c[key[0]] = v
        else:
            c[tuple(key)] = v
    elif k == "setdoc":
        resolve(m, op["target"]).doc = op["doc"]
    else:
        raise ValueError("unknown op " + k)


def errname(e):
    n = type(e).__name__
    if n == "FormulaError":
        try:
            o = mx.get_error()
            if o is not None:
                return "FormulaError:" + type(o).__name__
        except Exception:
            pass
    return n


def probe(m, probes):
    out = []
    for steps, args in probes:
        try:
            c = resolve(m, steps)
            v = c(*mkkey(args))
            out.append(["ok", canon(v)])
        except BaseException as e:
            if isinstance(e, (KeyboardInterrupt, SystemExit)):
                raise
            out.append(["err", errname(e)])
    return out


# --------------------------------------------------------------------------
# recording the writes (fault-free instrumentation of ziputil)
# --------------------------------------------------------------------------
WRITELOG = None
DIRROOT = None
_orig_write_file = ziputil.write_file
_orig_copy_file = ziputil.copy_file


class Tee:
    def __init__(self, f):
        self.f = f
        self.parts = []

    def write(self, x):
        self.parts.append(x)
        return self.f.write(x)

    def __getattr__(self, n):
        return getattr(self.f, n)


def _rel(path):
    root = ziputil.find_zip_parent(path)
    if root:
        return ziputil.get_archive_path(path, root)
    return os.path.relpath(str(path), str(DIRROOT)).replace(os.sep, "/")


def _h(b):
    return hashlib.sha1(b).hexdigest()[:12]


def rec_write_file(callback, path, mode, encoding=None, newline=None, compression=None, compresslevel=None):
    entry = None
    if WRITELOG is not None:
        entry = {"path": _rel(path), "mode": mode, "h": None}
        WRITELOG.append(entry)
        orig_cb = callback

        def callback(f):
            t = Tee(f)
            r = orig_cb(t)
            data = b"".join(p if isinstance(p, bytes) else p.encode(encoding or "utf-8") for p in t.parts)
            entry["h"] = _h(data)
            entry["n"] = len(data)
            return r
    return _orig_write_file(callback, path, mode, encoding=encoding, newline=newline,
                            compression=compression, compresslevel=compresslevel)


def rec_copy_file(src, dst, compression=None, compresslevel=None):
    if WRITELOG is not None:
        WRITELOG.append({"path": _rel(dst), "mode": "copy", "h": _h(open(src, "rb").read())})
    return _orig_copy_file(src, dst, compression=compression, compresslevel=compresslevel)


ziputil.write_file = rec_write_file
ziputil.copy_file = rec_copy_file


def listing_dir(root):
    out = []
    for d, _, fs in os.walk(root):
        for f in fs:
            p = os.path.join(d, f)
            out.append([os.path.relpath(p, root).replace(os.sep, "/"), _h(open(p, "rb").read())])
    return sorted(out)


def listing_zip(path):
    with zipfile.ZipFile(path) as z:
        return [[n, _h(z.read(n))] for n in z.namelist()]


def texts_dir(root):
    out = {}
    for d, _, fs in os.walk(root):
        for f in fs:
            p = os.path.join(d, f)
            rel = os.path.relpath(p, root).replace(os.sep, "/")
            if f.endswith(".pickle"):
                continue
            out[rel] = open(p, "rb").read().decode("utf-8", "replace")
    return out


def close_all():
    for mm in list(mx.get_models().values()):
        try:
            mm.close()
        except Exception:
            pass


def guarded(res, key, f):
    try:
        res[key] = f()
        return True
    except BaseException as e:
        if isinstance(e, (KeyboardInterrupt, SystemExit)):
            raise
        res[key + "_err"] = errname(e) + ": " + str(e)[:300]
        return False


def run_case(case):
    global WRITELOG, DIRROOT
    res = {"id": case.get("id")}
    close_all()
    wd = os.path.join(TMPROOT, "c%s" % case.get("id", 0))
    shutil.rmtree(wd, ignore_errors=True)
    os.makedirs(wd)
    try:
        m = mx.new_model(case["name"])
        st = []
        for op in case["ops"]:
            try:
                apply_op(m, op)
                st.append("ok")
            except Exception as e:
                st.append(errname(e) + ": " + str(e)[:200])
        res["ops"] = st
        res["d0"] = describe(m)
        probes = case.get("probes", [])
        if case.get("eval_before"):
            res["v0"] = probe(m, probes)
        res["dA"] = describe(m, True)
        path0 = getattr(m, "path", None)
        # ---- write to a directory
        D1 = os.path.join(wd, "D1")
        Z1 = os.path.join(wd, "Z1.zip")
        WRITELOG = []; DIRROOT = D1
        okd = guarded(res, "wdir", lambda: (mx.write_model(m, D1), True)[1])
        res["log_dir"] = WRITELOG; WRITELOG = None
        res["dB"] = describe(m, True)
        res["path_after_dir"] = str(m.path) if m.path is not None else None
        WRITELOG = []; DIRROOT = None
        okz = guarded(res, "wzip", lambda: (mx.zip_model(m, Z1), True)[1])
        res["log_zip"] = WRITELOG; WRITELOG = None
        res["dC"] = describe(m, True)
        res["path_after_zip"] = str(m.path) if m.path is not None else None
        res["expect_paths"] = [D1, Z1]
        if not case.get("eval_before"):
            res["v0"] = probe(m, probes)
        if okd:
            res["ls_dir"] = listing_dir(D1)
            res["texts"] = texts_dir(D1)
        if okz:
            res["ls_zip"] = listing_zip(Z1)
        # ---- read back
        m2 = m3 = None
        if okd:
            try:
                m2 = mx.read_model(D1)
                res["d_dir"] = describe(m2)
                res["v_dir"] = probe(m2, probes)
                res["d_dir_after_probe"] = describe(m2)
            except BaseException as e:
                if isinstance(e, (KeyboardInterrupt, SystemExit)):
                    raise
                res["rdir_err"] = errname(e) + ": " + str(e)[:300]
        if okz:
            try:
                m3 = mx.read_model(Z1)
                res["d_zip"] = describe(m3)
                res["v_zip"] = probe(m3, probes)
            except BaseException as e:
                if isinstance(e, (KeyboardInterrupt, SystemExit)):
                    raise
                res["rzip_err"] = errname(e) + ": " + str(e)[:300]
        # ---- chain: dir -> model -> zip -> model -> dir
        if case.get("chain") and m2 is not None:
            try:
                Z2 = os.path.join(wd, "Z2.zip"); D3 = os.path.join(wd, "D3")
                mren = mx.read_model(D1, name="C04renamed")    # relative names make the files relocatable
                res["d_renamed"] = describe(mren)
                res["v_renamed"] = probe(mren, probes)
                m2b = mx.read_model(D1)
                mx.zip_model(m2b, Z2)
                res["ls_zip2"] = listing_zip(Z2)
                m4 = mx.read_model(Z2)
                res["d_chain_mid"] = describe(m4)
                mx.write_model(m4, D3)
                res["ls_dir3"] = listing_dir(D3)
                res["texts3"] = texts_dir(D3)
                m5 = mx.read_model(D3)
                res["d_chain"] = describe(m5)
                res["v_chain"] = probe(m5, probes)
                # writing twice to the same place (backup off) gives the same files
                mx.write_model(m5, D3, backup=False)
                res["ls_dir3b"] = [x[0] for x in listing_dir(D3)]
            except BaseException as e:
                if isinstance(e, (KeyboardInterrupt, SystemExit)):
                    raise
                res["chain_err"] = errname(e) + ": " + str(e)[:300] + traceback.format_exc()[-600:]
    except BaseException as e:
        if isinstance(e, (KeyboardInterrupt, SystemExit)):
            raise
        res["crash"] = errname(e) + ": " + str(e)[:300] + traceback.format_exc()[-800:]
    finally:
        WRITELOG = None
        close_all()
        shutil.rmtree(wd, ignore_errors=True)
    # ---- python's own reading of triple-quoted literals (Serial/Lexer.v tie)
    if "lex" in case:
        lx = []
        for d in case["lex"]:
            try:
                v = ast.literal_eval('"""' + d + '"""')
                lx.append(["ok", v] if isinstance(v, str) else ["other"])
            except BaseException as e:
                lx.append(["err", type(e).__name__])
        res["lex"] = lx
    return res


def main():
    cases = json.load(sys.stdin)
    os.makedirs(TMPROOT, exist_ok=True)
    out = []
    try:
        for c in cases:
            out.append(run_case(c))
    finally:
        shutil.rmtree(TMPROOT, ignore_errors=True)
    print("@@RESULT " + json.dumps(out))


if __name__ == "__main__":
    main()
