"""C02 driver of the WIDE class ((P) only; runs the REAL modelx, PYTHONPATH=$MODELX_REPO).  Generator: harness/c02widelib.py.

stdin: JSON list of cases, stdout: "@@RESULT " + JSON list.
case = {"wide": true, "ops": [op...], "minimise": bool (default true)}
  op = an edit / {"op": "eval", ...} / {"op": "sweep"}; `c02wide.render(op)` is the one Python statement over the model
  `m` that an edit or an evaluation stands for, and this driver executes exactly that statement (objects are looked
  up by their current path every time: no handle is kept across operations).

The LIVE model runs the whole history.  At every "sweep" and at the end a FRESH model replays the edits of the
history so far - and nothing else, no evaluation - from an empty model, and
  1. every edit must have had the same outcome in both (accepted, or the same exception class): otherwise
     "edit diverged" (one model accepted what the other refused / refused differently);
  2. the definitions are compared (spaces, bases, cells with formula / flags / derived bit, references with values,
     parameter formulas, model-level references): if they differ after an edit that BOTH refused, the history stops
     there (counted; what a refused edit leaves behind is not this property's business); if every edit was accepted,
     the answers (3., over the cells of either model) decide and the history stops after them (counted);
  3. every cells of every static space and of the ItemSpaces [1] [2] (and of their child spaces) of every parametrised
     space is asked over the argument grid 0 1 2 in both models; a different answer (value or exception class) is a
     "stale value".
A failing history is minimised (operations dropped while a failure of the same kind persists at the end) and
comes with a stand-alone script.

result = {"pfail": [{"kind", "step", "detail", "query", "minimal_ops", "script"}], "outs": [...], "stats": {...},
          "lost": {edit index: [[static cells name, in ItemSpace]...]}   values held before the edit and gone / changed after it}
"""
import sys, os, json

sys.path.insert(0, os.path.join(os.path.dirname(os.path.abspath(__file__)), ".."))
import c02widelib as W

import modelx as mx
from modelx.core.errors import FormulaError

GRID = W.GRID
KEYS = W.KEYS


def close_all():
    for m in list(mx.get_models().values()):
        try:
            m.close()
        except BaseException:
            pass


def errclass(e):
    if isinstance(e, FormulaError):
        o = mx.get_error()
        return "FormulaError:" + (type(o).__name__ if o is not None else "?")
    return type(e).__name__


def canon(v):
    if v is None or isinstance(v, (bool, int)):
        return v
    if isinstance(v, float):
        return repr(v)
    return "<%s>" % type(v).__name__


def run_stmt(m, op):
    """outcome of one edit / evaluation: ["ok"] | ["val", v] | ["err", class]"""
    src = W.render(op)
    try:
        if op["op"] == "eval":
            return ["val", canon(eval(src, {"m": m}))]
        if op["op"] in W.CACHE_OPS:
            try:
                exec(src, {"m": m})
            except KeyError:
                pass
            return ["ok"]
        exec(src, {"m": m})
        return ["ok"]
    except BaseException as e:
        if isinstance(e, (KeyboardInterrupt, SystemExit, MemoryError)):
            raise
        return ["err", errclass(e)]


# --------------------------------------------------------------------------
# the definitions of a model, canonical
# --------------------------------------------------------------------------
def relname(impl):
    """path of a space below the model, as a string"""
    return ".".join(impl.idstr.split(".")) if hasattr(impl, "idstr") else "?"


def refval(v):
    try:
        if hasattr(v, "_impl"):
            if not v._is_valid():
                return "<deleted>"
            return "<%s %s>" % (type(v).__name__, v._impl.idstr)
    except BaseException as e:
        return "<broken %s>" % type(e).__name__
    return canon(v)


def static_spaces(m):
    out = []

    def walk(impl, path):
        out.append((path, impl))
        for n, c in impl.named_spaces.items():
            walk(c, path + [n])

    for n, s in m._impl.spaces.items():
        walk(s, [n])
    return out


def describe(m):
    d = {"": {"refs": {n: refval(r.interface) for n, r in m._impl.global_refs.items() if n != "__builtins__"}}}
    for path, s in static_spaces(m):
        cells = {}
        for n, c in s.cells.items():
            cells[n] = [c.formula.source if c.formula is not None else None, bool(c.is_derived()), c.allow_none, bool(c.is_cached),
                        sorted(repr(k) for k in c.input_keys)]
        d[".".join(path)] = {
            "bases": [b.idstr for b in s.bases],
            "cells": cells,
            "refs": {n: [refval(r.interface), bool(r.is_derived())] for n, r in s.own_refs.items()},
            "pf": s.formula.source if s.formula is not None else None,
            "allow_none": s.allow_none,
            "children": sorted(s.named_spaces)}
    return d


def first_diff(a, b):
    for k in sorted(set(a) | set(b)):
        if a.get(k) != b.get(k):
            x, y = a.get(k), b.get(k)
            if isinstance(x, dict) and isinstance(y, dict):
                for f in sorted(set(x) | set(y)):
                    if x.get(f) != y.get(f):
                        return "space %r, %s: live %r, edits-only replay %r" % (k or "(model)", f, x.get(f), y.get(f))
            return "space %r: live %r, edits-only replay %r" % (k, x, y)
    return None


def queries(da, db):
    """every cells of every static space / of the ItemSpaces [1] [2] of every parametrised space, in either model"""
    qs = []
    names = sorted((set(da) | set(db)) - {""})
    for sp in names:
        cells = {}
        for d in (da, db):
            for n, c in (d.get(sp) or {"cells": {}})["cells"].items():
                cells.setdefault(n, c[0])
        for n in sorted(cells):
            ar = W.arity_of(n) if n[0] in "fghe" and n[1:].isdigit() else 0
            for x in (GRID if ar else [None]):
                qs.append({"op": "eval", "t": {"p": sp.split(".")}, "name": n, "args": [x] if ar else []})
    for sp in names:
        if not any((d.get(sp) or {}).get("pf") for d in (da, db)):
            continue
        subs = [s for s in names if s == sp or s.startswith(sp + ".")]
        for key in KEYS:
            for s in subs:
                cells = set()
                for d in (da, db):
                    cells |= set((d.get(s) or {"cells": {}})["cells"])
                for n in sorted(cells):
                    ar = W.arity_of(n) if n[0] in "fghe" and n[1:].isdigit() else 0
                    for x in (GRID if ar else [None]):
                        qs.append({"op": "eval", "t": {"p": sp.split("."), "key": [key], "sub": s.split(".")[len(sp.split(".")):]},
                                   "name": n, "args": [x] if ar else []})
    return qs


# --------------------------------------------------------------------------
# values held by the live model (book-keeping for the distribution only)
# --------------------------------------------------------------------------
def held(m):
    out = {}

    def walk(impl, name, item):
        for n, c in impl.cells.items():
            for k, v in c.data.items():
                out[(name + "." + n, item, repr(k))] = canon(v) if not hasattr(v, "_impl") else "<obj>"
        for n, c in impl.named_spaces.items():
            walk(c, name + "." + n, item)
        for k, c in getattr(impl, "param_spaces", {}).items():
            walk(c, name, True)

    try:
        for n, s in m._impl.spaces.items():
            walk(s, n, False)
    except BaseException:
        pass
    return out


# --------------------------------------------------------------------------
def replay_edits(ops, name="Fresh"):
    m = mx.new_model(name)
    outs = []
    for op in ops:
        if W.is_edit(op):
            outs.append(run_stmt(m, op))
    return m, outs


def compare(live, prefix, live_outs, step, stats, fails, flat):
    """[live] has run [prefix]; returns False when the history must stop here"""
    edits = [op for op in prefix if W.is_edit(op)]
    fresh, fouts = replay_edits(edits)
    try:
        stats["comparison_points"] += 1
        louts = [o for op, o in zip(prefix, live_outs) if W.is_edit(op)]
        for j, (a, b) in enumerate(zip(louts, fouts)):
            if a != b:
                fails.append({"kind": "edit diverged", "step": step,
                              "detail": "edit %r: live model %s, edits-only replay %s" % (
                                  W.render(edits[j]), "accepted it" if a == ["ok"] else "raised " + a[1],
                                  "accepted it" if b == ["ok"] else "raised " + b[1])})
                return False
        da, db = describe(live), describe(fresh)
        differ = da != db
        if differ:
            refused = [W.render(op) for op, o in zip(edits, louts) if o != ["ok"]]
            if refused:
                stats["stopped:definitions_differ_after_an_edit_both_refused"] += 1
                return False
            # every edit was accepted by both: the answers decide (below, over the cells of either model), then stop
        qs = queries(da, db)
        for q in qs:
            a = run_stmt(live, q)
            flat.append(q)
            b = run_stmt(fresh, q)
            stats["comparisons"] += 1
            stats["answers:" + (a[0] if a[0] == "val" else a[1])] += 1
            if a != b:
                fails.append({"kind": "stale value", "step": step, "query": q,
                              "detail": "%s: live model %s, a model that replayed only the edits %s" % (
                                  W.render(q), "returns %r" % (a[1],) if a[0] == "val" else "raises " + a[1],
                                  "returns %r" % (b[1],) if b[0] == "val" else "raises " + b[1])})
                return False
        if differ:
            stats["stopped:definitions_differ_but_no_answer_does"] += 1
            stats["definitions_differ:" + (first_diff(da, db) or "?")[:120]] += 1
            return False
        return True
    finally:
        try:
            fresh.close()
        except BaseException:
            pass


def run_history(ops, stats, want_lost=False, cut_on_drift=False, drift=None):
    """-> (fails, outs, lost, flat): flat = the history with every sweep replaced by the evaluations it made"""
    close_all()
    live = mx.new_model("Live")
    outs, fails, lost, flat = [], [], {}, []
    drift = [] if drift is None else drift
    ops = list(ops)
    if not ops or ops[-1]["op"] != "sweep":
        ops.append({"op": "sweep"})
    idx = -1
    while idx + 1 < len(ops):
        idx += 1
        op = ops[idx]
        if op["op"] == "sweep":
            outs.append(["sweep"])
            try:
                go = compare(live, ops[:idx], outs, idx, stats, fails, flat)
            except BaseException as e:
                if isinstance(e, (KeyboardInterrupt, SystemExit, MemoryError)):
                    raise
                fails.append({"kind": "oracle crashed", "step": idx, "detail": "%s: %s" % (type(e).__name__, str(e)[:300])})
                go = False
            if not go:
                break
            continue
        if W.is_edit(op):
            before = held(live) if want_lost else None
            o = run_stmt(live, op)
            if want_lost:
                after = held(live)
                gone = sorted({(k[0], k[1]) for k, v in before.items() if after.get(k, "<gone>") != v})
                if gone:
                    lost[str(idx)] = [[a, b] for a, b in gone]
            stats["edits"] += 1
            stats["edit_outcomes:" + (o[0] if o[0] == "ok" else o[1])] += 1
            if (o != ["ok"]) != bool(op.get("xr")) and cut_on_drift:
                # the generator's mirror no longer describes the model (it expected the opposite outcome): what it
                # draws from here on - and the known-trigger predicates it evaluates - would rest on wrong definitions
                stats["histories_cut:edit_outcome_not_foreseen_by_the_generator"] += 1
                stats["unforeseen:%s:%s" % (op["op"], o[0] if o[0] == "ok" else o[1])] += 1
                drift.append(W.render(op) + " -> " + str(o))
                outs.append(o)
                flat.append(op)
                ops[idx + 1:] = [{"op": "sweep"}]
                continue
        else:
            o = run_stmt(live, op)
            stats["evaluations"] += 1
        outs.append(o)
        flat.append(op)
    close_all()
    return fails, outs, lost, flat


class Counter(dict):
    def __missing__(self, k):
        return 0


def still_fails(ops, kind):
    st = Counter()
    fails, _, _, _ = run_history(ops + [{"op": "sweep"}], st)
    return any(f["kind"] == kind for f in fails), fails


def minimise(flat, kind, budget=400):
    """drop operations (chunks, then single ones) while a failure of the same kind persists at the end"""
    ops = [op for op in flat if op["op"] != "sweep"]
    ok, fails = still_fails(ops, kind)
    if not ok:
        return None, None
    n = 2
    used = 0
    while len(ops) >= 2 and used < budget:
        size = max(1, len(ops) // n)
        reduced = False
        i = 0
        while i < len(ops) and used < budget:
            cand = ops[:i] + ops[i + size:]
            used += 1
            ok, f2 = still_fails(cand, kind) if cand else (False, None)
            if ok:
                ops, fails, reduced = cand, f2, True
            else:
                i += size
        if not reduced:
            if size == 1:
                break
            n = min(len(ops), n * 2)
        else:
            n = max(2, n - 1) if size > 1 else n
    return ops, fails


MINIMISED = [0]


def run_case(case):
    stats = Counter()
    ops = case["ops"]
    drift = []
    fails, outs, lost, flat = run_history(ops, stats, want_lost=True, cut_on_drift=case.get("generated", False), drift=drift)
    pfail = []
    for f in fails[:1]:
        f = dict(f)
        if f["kind"] in ("stale value", "edit diverged") and case.get("minimise", True) and MINIMISED[0] < 3:
            MINIMISED[0] += 1           # per driver process (one chunk of histories): the others keep their full history
            # the failing history, sweeps made explicit (the live model answered the sweep's questions in this order)
            hist = flat
            try:
                mops, mf = minimise(hist, f["kind"])
            except BaseException as e:
                mops, mf = None, None
                f["minimiser"] = "crashed: %s: %s" % (type(e).__name__, str(e)[:200])
            if mops is not None:
                mf0 = [x for x in mf if x["kind"] == f["kind"]][0]
                f["minimal_ops"] = [W.strip(o) for o in mops]
                f["minimal_detail"] = mf0["detail"]
                f["minimal_query"] = mf0.get("query")
                f["script"] = W.script(mops, mf0.get("query"), f["kind"] + " -- " + mf0["detail"])
            else:
                f["script"] = W.script(hist, f.get("query"), f["kind"] + " (not minimised) -- " + f["detail"])
        else:
            f["script"] = W.script(flat, f.get("query"), f["kind"] + " -- " + f["detail"])
        pfail.append(f)
    close_all()
    return {"pfail": pfail, "outs": outs, "stats": dict(stats), "lost": lost, "drift": drift}


def main():
    out = []
    for c in json.load(sys.stdin):
        out.append(run_case(c))
    print("@@RESULT " + json.dumps(out))


if __name__ == "__main__":
    main()
