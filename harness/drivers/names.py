"""Names driver (C11, C12): runs the REAL modelx (PYTHONPATH=$MODELX_REPO).
stdin: JSON list of cases, stdout: "@@RESULT " + JSON list (one result per case).

case kinds
  {"kind": "hist", "ops": [op...]}
      -> {"steps": [{"out": code, "exc": str|None, "obs": {...}}...], "obs0": {...}}
         after EVERY op: a description of the whole model through the public API
         (space tree, bases, cells + formula source + is_derived + inputs, references + values),
         dir(space), space.cells / refs / spaces / _own_refs, getattr kinds and the library's own
         self-checks (mx.core.mxsys._check_sanity(), model._impl._check_sanity()) and the nodes / edges of the
         space manager's inheritance graph (model._impl.spmgr._graph).
  {"kind": "valid", "names": [str...]} -> {"valid": [bool...]}      util.is_valid_name

ops (paths are lists of names, [] = the model)
  ["NewSpace", parent, name, [base paths]]       ["NewCells", space, name|null, farg]
  ["SetFormula", space, cells, farg]             ["RenameCells", space, cells, new]
  ["RenameSpace", space, new]                    ["AddBases", space, [base paths]]
  ["RemoveBases", space, [base paths]]           ["SetAttr", space|[], name, int|null]
  ["DelAttr", space|[], name]                     ["SetParams", space, [names]]
  farg: ["none"] | ["lam", t] | ["def", fname, t] | ["bad", k]
"""
import sys, json, re

import modelx as mx
from modelx.core.util import is_valid_name

(ACCEPTED, NOSUCHSPACE, NOSUCHMEMBER, INVALIDNAME, NAMEINUSE, CYCLIC, NOMRO, NAMECONFLICT, NOTABASE,
 ISDERIVED, HASBASES, BADFORMULA, NONEVALUE, NOTALLOWED) = range(14)
OTHER = 99

BAD_SOURCES = ["1 +", "lambda: (", "def f(:", "lambda x y: 1"]


class NoSuchSpace(Exception):
    pass


def classify(opname, e):
    name, msg = type(e).__name__, str(e)
    if isinstance(e, NoSuchSpace):
        return NOSUCHSPACE
    if name == "ValueError" and ("Invalid name" in msg or re.search(r"name '.*' is invalid", msg, re.S)):
        return INVALIDNAME
    if name == "ValueError" and re.match(r"(?s)^(Cannot create cells|cannot create cells|Cannot create space|"
                                         r"Cannot create reference|Cannot rename) ", msg):
        return NAMEINUSE
    if name == "ValueError" and "cyclic inheritance" in msg:
        return CYCLIC
    if name == "TypeError" and "inconsistent hierarchy" in msg:
        return NOMRO
    if name == "NameError" and "name conflict" in msg:
        return NAMECONFLICT
    if name == "NetworkXError" and "not in graph" in msg:
        return NOTABASE
    if name == "ValueError" and "cannot delete derived" in msg:
        return ISDERIVED
    if opname == "DelAttr" and (name == "ValueError" and "list.remove" in msg or name == "AssertionError"):
        return ISDERIVED          # del of a derived reference: deleted, re-derived, then the book-keeping raises
    if name == "ValueError" and "is a sub Cells of" in msg:
        return HASBASES
    if name == "SyntaxError":
        return BADFORMULA
    if name == "NoneReturnedError":
        return NONEVALUE
    if name == "KeyError" and "already exist" in msg:
        return NOTALLOWED
    if name == "KeyError":
        return NOSUCHMEMBER
    if opname == "DelAttr" and name == "AttributeError" and "is_derived" in msg:
        return NOTALLOWED         # del space.<special or model-level name>
    if opname == "DelAttr" and name == "ValueError" and "cannot be deleted" in msg:
        return NOTALLOWED
    if opname == "SetAttr" and name == "ValueError" and msg == "":
        return NOTALLOWED         # space.<child space name> = value
    return OTHER


def reset():
    for m in list(mx.get_models().values()):
        m.close()


def src_of(farg):
    k = farg[0]
    if k == "none":
        return None
    if k == "lam":
        return "lambda: %d" % farg[1]
    if k == "def":
        return "def %s(): return %d" % (farg[1], farg[2])
    if k == "bad":
        return BAD_SOURCES[farg[1] % len(BAD_SOURCES)]
    raise RuntimeError(farg)


def parse_src(c):
    try:
        f = c.formula
    except AttributeError:
        return ["noattr"]                 # D11: a cells without a formula attribute
    if f is None:
        return ["null"]
    src = f.source
    if src.strip() == "lambda: None":
        return ["null"]
    m = re.match(r"^\s*lambda\s*:\s*(-?\d+)\s*$", src)
    if m:
        return ["lam", int(m.group(1))]
    m = re.match(r"^\s*def\s+(\w+)\(\):\s*return\s+(-?\d+)\s*$", src)
    if m:
        return ["def", m.group(1), int(m.group(2))]
    return ["?", src]


def val(v):
    if v is None:
        return None
    if isinstance(v, int) and not isinstance(v, bool):
        return v
    from modelx.core.base import Interface
    if isinstance(v, Interface):
        # a reference bound to an object of the model: kind and identity (no name: a relative reference is re-bound
        # in every sub space, and names change)
        return "?iface:%s:%x" % (kind_of(v, None), id(v._impl) % 0xffff)
    return "?" + repr(v)[:40]


def kind_of(x, m):
    from modelx.core.cells import Cells
    from modelx.core.space import BaseSpace
    from modelx.core.model import Model
    if isinstance(x, Cells):
        return "cells"
    if isinstance(x, BaseSpace):
        return "space"
    if isinstance(x, Model):
        return "model"
    if isinstance(x, dict) and "__name__" in x or getattr(x, "__name__", None) == "builtins":
        return "builtins"
    return ["v", val(x)]


def obs_space(s, m, out, path):
    cells = {}
    for k, c in s.cells.items():
        try:
            inputs = sorted([[list(a), val(v)] for a, v in dict(c).items() if c.is_input(*a)])
        except BaseException as e:
            inputs = "err:" + type(e).__name__
        cells[k] = [bool(c._is_derived()), parse_src(c), inputs, c.name]
    own = {}
    for k, v in s._own_refs.items():
        try:
            d = bool(s._impl.own_refs[k].is_derived())
        except BaseException as e:
            d = "err:" + type(e).__name__
        own[k] = [d, val(v)]
    refs = {}
    for k, v in s.refs.items():
        refs[k] = None if k in ("__builtins__", "_self", "_space", "_model") else val(v)
    attrs = {}
    names = list(dir(s))
    for n in names:
        try:
            attrs[n] = kind_of(getattr(s, n), m)
        except BaseException as e:
            attrs[n] = "err:" + type(e).__name__
    out[".".join(path)] = {
        "cells": cells, "own": own, "refs": refs, "spaces": list(s.spaces), "dir": names, "attrs": attrs,
        "bases": [b.fullname.split(".", 1)[1] for b in s.bases],
        "direct": [b.fullname.split(".", 1)[1] for b in s._direct_bases],
        "name": s.name, "fullname": s.fullname, "params": list(s.parameters) if s.parameters is not None else None,
        "item": obs_item(s, m),
    }
    for k, c in s.spaces.items():
        obs_space(c, m, out, path + [k])


def obs_item(s, m):
    """the ItemSpace s[0, ..., 0] of a space with parameters: dir(), refs, cells, spaces, what the names denote;
    the ItemSpace is deleted again"""
    ps = s.parameters
    if not ps:
        return None
    try:
        it = s[tuple(0 for _ in ps)] if len(ps) > 1 else s[0]
        names = list(dir(it))
        attrs = {}
        for n in names:
            try:
                attrs[n] = kind_of(getattr(it, n), m)
            except BaseException as e:
                attrs[n] = "err:" + type(e).__name__
        out = {"dir": names, "cells": list(it.cells), "spaces": list(it.spaces),
               "refs": {k: (None if k in ("__builtins__", "_self", "_space", "_model") else val(v)) for k, v in it.refs.items()},
               "attrs": attrs}
    except BaseException as e:
        out = {"err": "%s: %s" % (type(e).__name__, str(e)[:100])}
    try:
        s.clear_items()
    except BaseException as e:
        out["clear_err"] = "%s: %s" % (type(e).__name__, str(e)[:100])
    return out


def observe(m):
    spaces = {}
    for k, s in m.spaces.items():
        obs_space(s, m, spaces, [k])
    o = {"spaces": spaces, "top": list(m.spaces), "grefs": {k: (None if k == "__builtins__" else val(v)) for k, v in m.refs.items()},
         "dir": list(dir(m))}
    for key, f in (("sys_sanity", mx.core.mxsys._check_sanity), ("model_sanity", m._impl._check_sanity)):
        try:
            f()
            o[key] = "ok"
        except BaseException as e:
            o[key] = "%s: %s" % (type(e).__name__, str(e)[:120])
    # the inheritance graph the space manager keeps (no public accessor): node names and (base, sub) edges
    try:
        g = m._impl.spmgr._graph
        o["graph"] = {"nodes": sorted(str(n) for n in g.nodes), "edges": sorted([str(a), str(b)] for a, b in g.edges)}
    except BaseException as e:
        o["graph"] = "err:%s: %s" % (type(e).__name__, str(e)[:120])
    return o


def find(m, path):
    try:
        x = m
        for n in path:
            x = x.spaces[n]
        return x
    except (KeyError, AttributeError):
        raise NoSuchSpace(".".join(path))


def wide_val(m, v):
    """["iface", path] / ["icells", path, name]: a space / cells of the model as a reference value"""
    if isinstance(v, list) and v and v[0] == "iface":
        return find(m, v[1])
    if isinstance(v, list) and v and v[0] == "icells":
        try:
            return find(m, v[1]).cells[v[2]]
        except KeyError:
            return find(m, v[1])
    return v


def do_op(m, op):
    k = op[0]
    if k == "NewSpace":
        parent = find(m, op[1])
        bases = [find(m, b) for b in op[3]]
        parent.new_space(op[2], bases=bases)
    elif k == "NewSpaceBad":
        parent = find(m, op[1])
        bases = [find(m, b) for b in op[3]]
        parent.new_space(op[2], bases=bases, formula="not a function !")
    elif k == "NewCells":
        s = find(m, op[1])
        s.new_cells(op[2], formula=src_of(op[3]))
    elif k == "SetFormula":
        s = find(m, op[1])
        s.cells[op[2]].set_formula(src_of(op[3]))
    elif k == "RenameCells":
        s = find(m, op[1])
        s.cells[op[2]].rename(op[3])
    elif k == "RenameSpace":
        if not op[1]:
            raise NoSuchSpace("")
        find(m, op[1]).rename(op[2])
    elif k == "AddBases":
        s = find(m, op[1])
        s.add_bases(*[find(m, b) for b in op[2]])
    elif k == "RemoveBases":
        s = find(m, op[1])
        s.remove_bases(*[find(m, b) for b in op[2]])
    elif k == "NewSpaceRefs":
        parent = find(m, op[1])
        bases = [find(m, b) for b in op[3]]
        parent.new_space(op[2], bases=bases, refs={n: wide_val(m, v) for n, v in op[4]})
    elif k == "SetAttr":
        setattr(find(m, op[1]), op[2], wide_val(m, op[3]))
    elif k == "DelAttr":
        delattr(find(m, op[1]), op[2])
    elif k == "SetParams":
        find(m, op[1]).parameters = tuple(op[2])
    else:
        raise RuntimeError("unknown op %r" % (op,))


def run_hist(case):
    reset()
    m = mx.new_model("M")
    steps = []
    obs0 = observe(m)
    for op in case["ops"]:
        exc = None
        try:
            do_op(m, op)
            code = ACCEPTED
        except BaseException as e:
            code = classify(op[0], e)
            exc = "%s: %s" % (type(e).__name__, str(e)[:200])
        try:
            snap = observe(m)
        except BaseException as e:
            snap = None
            exc = (exc or "") + " | observe failed: %s: %s" % (type(e).__name__, str(e)[:200])
        steps.append({"out": code, "exc": exc, "obs": snap})
        if snap is None:
            break
    reset()
    return {"steps": steps, "obs0": obs0}


def main():
    out = []
    for c in json.load(sys.stdin):
        if c["kind"] == "valid":
            out.append({"valid": [bool(is_valid_name(n)) for n in c["names"]]})
        else:
            out.append(run_hist(c))
    print("@@RESULT " + json.dumps(out))


if __name__ == "__main__":
    main()
