"""Runs Model.generate_actions / Model.execute_actions of the real modelx on
generated DAG-shaped models (property C16).

case = {"cells":  [{"name": "c0", "space": "A", "param": bool}, ...],
        "elems":  [{"cell": i, "arg": int|None, "preds": [elem ids, call order], "base": int}, ...],
        "inputs": [[elem id, value], ...],      assigned before generate_actions
        "precalc": [elem ids],                  evaluated before generate_actions (D25 witness only)
        "nones": bool,                          elements whose sum is 0 hold None (model.allow_none); observed as 0
        "targets": [elem ids], "step": int}
An element id is its index in "elems".  Every formula first calls the
model-level reference `cnt` (a Python function appending the element id to a
log), then adds its base and the calls of its precedents.

result = {"err": None|enum,
          "actions": [[kind, [ids]], ...], "gen_log": [...], "after_gen": snapshot, "before": snapshot,
          "exec_log": [...], "final": snapshot (with values), "direct": {id: value},
          "actions2": the plan of a second identical model, "steps": [flags after every action of actions2], "steps_log"}
snapshot = list over element ids of None | ["i", v] | ["c", v]; plus "extra" keys found in any cells."""
import sys, json, warnings
warnings.simplefilter("ignore")
import modelx as mx


def close_all():
    for m in list(mx.get_models().values()):
        try:
            m.close()
        except Exception:
            pass


def formula_src(case, ci):
    cell = case["cells"][ci]
    spaces = {c["name"]: c["space"] for c in case["cells"]}

    def callee(eid):
        e = case["elems"][eid]
        c = case["cells"][e["cell"]]
        nm = c["name"] if c["space"] == cell["space"] else "r_" + c["name"]
        return "%s(%s)" % (nm, "" if e["arg"] is None else e["arg"])

    nones = bool(case.get("nones"))
    raises = case.get("raises")         # element id whose formula fails after calling its precedents ((P)-only cases)

    def expr(eid):
        e = case["elems"][eid]
        if raises == eid:
            return "boom(%s)" % " + ".join(["cnt(%d)" % eid, str(e["base"])] + [callee(p) for p in e["preds"]])
        if nones:
            # an element whose sum is 0 holds None (allowed: model.allow_none); callers read None as 0
            return "nz(%s)" % " + ".join(["cnt(%d)" % eid, str(e["base"])] + ["(%s or 0)" % callee(p) for p in e["preds"]])
        return " + ".join(["cnt(%d)" % eid, str(e["base"])] + [callee(p) for p in e["preds"]])

    mine = [i for i, e in enumerate(case["elems"]) if e["cell"] == ci]
    if not cell["param"]:
        assert len(mine) == 1
        return "def %s():\n    return %s\n" % (cell["name"], expr(mine[0]))
    lines = ["def %s(x):" % cell["name"]]
    for eid in mine:
        lines.append("    if x == %d:" % case["elems"][eid]["arg"])
        lines.append("        return %s" % expr(eid))
    lines.append("    raise ValueError(x)")
    return "\n".join(lines) + "\n"


class Built:
    pass


def build(case, tag):
    b = Built()
    b.log = []
    log = b.log

    def cnt(i):
        log.append(i)
        return 0

    m = mx.new_model("M" + tag)
    m.cnt = cnt
    if case.get("raises") is not None:
        def boom(v):
            raise ValueError("boom %r" % (v,))
        m.boom = boom
    if case.get("nones"):
        m.allow_none = True
        m.nz = lambda v: v if v else None
    spaces = {}
    for c in case["cells"]:
        if c["space"] not in spaces:
            spaces[c["space"]] = m.new_space(c["space"])
    b.cells = []
    # cells first (without formula bodies depending on creation order: names are
    # resolved at call time), then model-level references r_<name> for cross-space calls
    for ci, c in enumerate(case["cells"]):
        b.cells.append(spaces[c["space"]].new_cells(c["name"], formula=formula_src(case, ci)))
    for ci, c in enumerate(case["cells"]):
        setattr(m, "r_" + c["name"], b.cells[ci])
    b.m = m
    b.ids = {}
    for eid, e in enumerate(case["elems"]):
        key = () if e["arg"] is None else (e["arg"],)
        b.ids[(b.cells[e["cell"]].fullname, key)] = eid
    for eid, v in case["inputs"]:
        e = case["elems"][eid]
        cl = b.cells[e["cell"]]
        if e["arg"] is None:
            cl.value = v
        else:
            cl[e["arg"]] = v
    for eid in case.get("precalc", []):
        call(b, case, eid)
    b.log.clear()
    return b


def call(b, case, eid):
    e = case["elems"][eid]
    cl = b.cells[e["cell"]]
    v = cl() if e["arg"] is None else cl(e["arg"])
    return 0 if v is None and case.get("nones") else v


def node_of(b, case, eid):
    e = case["elems"][eid]
    cl = b.cells[e["cell"]]
    return cl.node() if e["arg"] is None else cl.node(e["arg"])


def snapshot(b, case):
    out = [None] * len(case["elems"])
    extra = []
    for ci, cl in enumerate(b.cells):
        for k, v in dict(cl).items():
            key = k if isinstance(k, tuple) else (k,)
            eid = b.ids.get((cl.fullname, key))
            if eid is None:
                extra.append([cl.fullname, repr(key)])
                continue
            out[eid] = ["i" if cl.is_input(*key) else "c", 0 if v is None and case.get("nones") else v]
    return {"elems": out, "extra": extra}


def enc_actions(b, actions):
    res = []
    for kind, nodes in actions:
        res.append([kind, [b.ids[(n.obj.fullname, tuple(n.args))] for n in nodes]])
    return res


def errname(e):
    n = type(e).__name__
    return n if n in ("AssertionError", "RecursionError", "KeyError", "ValueError") else "Other:" + n


def run_case(case):
    r = {"err": None}
    close_all()
    try:
        # ---- run 1: the documented use, whole action list at once
        b = build(case, "a")
        r["before"] = snapshot(b, case)
        targets = [node_of(b, case, t) for t in case["targets"]]
        try:
            actions = b.m.generate_actions(targets, case["step"])
        except Exception as e:
            r["err"] = "generate:" + errname(e)
            r["gen_log"] = list(b.log)
            r["after_gen"] = snapshot(b, case)
            return r
        r["actions"] = enc_actions(b, actions)
        r["gen_log"] = list(b.log)
        r["after_gen"] = snapshot(b, case)
        b.log.clear()
        try:
            b.m.execute_actions(actions)
        except Exception as e:
            r["err"] = "execute:" + errname(e)
            return r
        r["exec_log"] = list(b.log)
        r["final"] = snapshot(b, case)
        if case.get("second_round"):
            # (P)-only (seeded/C16_r4): the SAME model is used again: the formula of every target cells is assigned
            # again (which discards the pasted targets), then the same targets are planned and run a second time
            r2 = {"err": None}
            try:
                for ci in sorted({case["elems"][t]["cell"] for t in case["targets"]}):
                    b.cells[ci].set_formula(formula_src(case, ci))
                b.log.clear()
                r2["before"] = snapshot(b, case)
                targets = [node_of(b, case, t) for t in case["targets"]]
                actions = b.m.generate_actions(targets, case["step"])
                r2["actions"] = enc_actions(b, actions)
                r2["gen_log"] = list(b.log)
                r2["after_gen"] = snapshot(b, case)
                b.log.clear()
                b.m.execute_actions(actions)
                r2["exec_log"] = list(b.log)
                r2["final"] = snapshot(b, case)
            except Exception as e:
                r2["err"] = "round2:" + errname(e) + ":" + str(e)[:120]
            r["round2"] = r2
        # ---- run 2: identical fresh model, actions one at a time, state after each
        close_all()
        b2 = build(case, "b")
        targets2 = [node_of(b2, case, t) for t in case["targets"]]
        actions2 = b2.m.generate_actions(targets2, case["step"])
        r["actions2"] = enc_actions(b2, actions2)     # may differ from run 1: networkx iterates a set of nodes
        b2.log.clear()
        steps = []
        for a in actions2:
            b2.m.execute_actions([a])
            sn = snapshot(b2, case)
            steps.append([None if x is None else x[0] for x in sn["elems"]])
        r["steps"] = steps
        r["steps_log"] = list(b2.log)
        # ---- run 3: identical fresh model, direct evaluation of the targets
        close_all()
        b3 = build(case, "c")
        r["direct"] = [[t, call(b3, case, t)] for t in case["targets"]]
    except Exception as e:
        r["err"] = "harness:" + errname(e) + ":" + str(e)[:200]
    finally:
        close_all()
    return r


if __name__ == "__main__":
    out = [run_case(c) for c in json.load(sys.stdin)]
    print("@@RESULT " + json.dumps(out))
