"""C13 driver of the NESTED class ((P) only; runs the REAL modelx, PYTHONPATH=$MODELX_REPO).

Parametric spaces nested in parametric spaces (P[i].C[j], P[i].T.C[j], P[i].C[j].D[k]) whose parameter formulas
call cells / read references, so that the ItemSpaces themselves are nodes with precedents in model.tracegraph and
in the reference graph.  Nothing of this is expressible in Alive/Model.v (there an ItemSpace has no precedents and
no ItemSpace lives inside another): the cases of this class are NOT tied to the model, they are judged by the
property oracle below alone.  Generator: harness/alivenest.py.

stdin: JSON list of cases, stdout: "@@RESULT " + JSON list.
case = {"nested": true, "ops": [op...]}            handles are addressed by LABEL (a string chosen by the generator)
  op = {"op": "space",  "lab": L, "in": PL, "name": n, "pf": source | null}        L := H[PL].new_space(n, formula=pf)
     | {"op": "cells",  "lab": L, "in": SL, "name": n, "f": source}                L := H[SL].new_cells(n, formula=f)
     | {"op": "setref", "in": OL, "name": n, "val": ["int", z] | ["h", L']}        setattr(H[OL], n, value)
     | {"op": "item",   "lab": L, "in": PL, "k": z}                                L := H[PL][z]
     | {"op": "attr",   "lab": L, "in": PL, "name": n}                             L := getattr(H[PL], n)
     | {"op": "call",   "h": CL}                                                   H[CL]()
     | {"op": "getref", "h": L, "name": n}                                         getattr(H[L], n)  (a reference value)
     | {"op": "del",    "in": OL, "name": n}                                       delattr(H[OL], n)   cells / space / reference
     | {"op": "delitem", "in": PL, "k": z} | {"op": "clearitems", "in": PL}
     | {"op": "setformula", "h": CL, "f": source} | {"op": "setvalue", "h": CL, "v": z} | {"op": "clear", "h": CL}  (clear_all: inputs too)
     | {"op": "setparams", "h": SL, "pf": source | null}
     | {"op": "audit"} | {"op": "check"}
  every op may carry "dead": [labels] = handles that MUST be dead after it (computed by the generator's mirror:
  contained in / copied from a deleted object, or an ItemSpace - or something inside one - whose parameter
  formula read a precedent that was deleted, redefined, assigned or cleared).  An op whose labels do not exist
  (an earlier request failed) is skipped.

Oracle, after every operation that is not a request / evaluation, after every failed operation, at every "check"
(the generator puts one after every batch of requests) and at the end (p_check of drivers/alive.py on all handles, plus):
  must-die      every handle listed in "dead" raises DeletedObjectError
  reachability  (deep_audit) everything reachable from the model through cells / named_spaces / param_spaces is
                valid and has the container as parent; every kept live handle is reachable that way; every entry
                of a reachable static space's _dynamic_subs is reachable (no orphan ItemSpace registered under
                its base); every dynamic space is registered under its base; every node of model.tracegraph and
                of the reference graph belongs to a reachable object, every reference node to a registered reference
and at "audit" operations and at the end
  rebuild       a fresh model replays the edits only (no requests, no evaluations); every live handle is looked up
                there by its path: it must exist, cells must hold only values the fresh model computes, spaces
                must show the same integer references and member names.

result = {"ops": [...], "steps": [{"out": [...], "exc": str|None, "alive": {label: bool}}], "pfail": [...],
          "stats": {"items_built": {depth: n}, "nested_deaths": n, "edits_killing_nested": n, "compared": n, "audits": n}}
"""
import sys, os, json

sys.path.insert(0, os.path.dirname(os.path.abspath(__file__)))
import alive as A            # shared: p_check, is_alive, path_of, classify (its main() is guarded)

import modelx as mx
from modelx.core.errors import DeletedObjectError, FormulaError
from modelx.core.model import Model
from modelx.core.space import UserSpace, ItemSpace, DynamicSpace
from modelx.core.cells import Cells

EDIT_OPS = ("del", "delitem", "clearitems", "setformula", "setvalue", "clear", "setparams", "setref", "space", "cells")
CHECKED_AFTER = ("del", "delitem", "clearitems", "setformula", "setvalue", "clear", "setparams", "setref", "space", "cells",
                 "audit", "check")      # requests / evaluations in between are checked at the next "check"
REPLAYED = ("space", "cells", "setref", "attr", "del", "setformula", "setvalue", "clear", "setparams")


class Skip(Exception):
    pass


def labels_of(op):
    return [op[k] for k in ("in", "h") if k in op] + ([op["val"][1]] if op.get("val", [""])[0] == "h" else [])


def do_op(m, H, op):
    """H: dict label -> handle.  Returns out."""
    for l in labels_of(op):
        if l not in H:
            raise Skip(l)
    k = op["op"]
    if k == "space":
        H[op["lab"]] = H[op["in"]].new_space(op["name"], formula=op["pf"])
    elif k == "cells":
        H[op["lab"]] = H[op["in"]].new_cells(op["name"], formula=op["f"])
    elif k == "setref":
        v = op["val"]
        setattr(H[op["in"]], op["name"], v[1] if v[0] == "int" else H[v[1]])
    elif k == "item":
        H[op["lab"]] = H[op["in"]][op["k"]]
    elif k == "attr":
        H[op["lab"]] = getattr(H[op["in"]], op["name"])
    elif k == "call":
        v = H[op["h"]]()
        return ["val", v if isinstance(v, int) else -999]
    elif k == "getref":
        v = getattr(H[op["h"]], op["name"])
        return ["val", v if isinstance(v, int) else -999]
    elif k == "del":
        delattr(H[op["in"]], op["name"])
    elif k == "delitem":
        del H[op["in"]][op["k"]]
    elif k == "clearitems":
        H[op["in"]].clear_items()
    elif k == "setformula":
        H[op["h"]].formula = op["f"]
    elif k == "setvalue":
        c = H[op["h"]]
        setattr(c.parent, c.name, op["v"])
    elif k == "clear":
        H[op["h"]].clear_all()
    elif k == "setparams":
        if op["pf"] is None:
            H[op["h"]].del_formula()
        else:
            H[op["h"]].set_formula(op["pf"])
    elif k in ("audit", "check"):
        pass
    else:
        raise RuntimeError("unknown op %r" % (op,))
    return ["done"]


impl_name = A.impl_name
deep_audit = A.deep_audit


# --------------------------------------------------------------------------
# rebuild differential
# --------------------------------------------------------------------------
def navigate(m2, path):
    x = m2
    for c in path:
        if c[0] == "k":
            x = x[c[1]]
        else:
            x = getattr(x, c[1])
    return x


def int_refs(h):
    out = {}
    for n, v in h.refs.items():
        if isinstance(v, int) and not isinstance(v, bool):
            out[n] = v
    return out


def rebuild_audit(H, ops_done, step, fails, stats):
    def fail(kind, detail):
        fails.append({"step": step, "kind": kind, "detail": detail})

    live = [(lab, h) for lab, h in H.items() if not isinstance(h, Model) and A.is_alive(h)]
    snap = []
    for lab, h in live:
        p = A.path_of(h)
        if isinstance(h, Cells):
            snap.append((lab, p, "cells", dict(h.items())))
        else:
            snap.append((lab, p, "space", (int_refs(h), sorted(h.cells), sorted(h.spaces))))
    m2 = mx.new_model("Fresh")
    try:
        H2 = {"M": m2}
        for op in ops_done:
            if op["op"] not in REPLAYED:
                continue
            try:
                do_op(m2, H2, op)
            except BaseException:
                H2.pop(op.get("lab"), None)
        for lab, p, kind, data in snap:
            try:
                h2 = navigate(m2, p)
            except BaseException as e:
                fail("alive-but-gone-in-rebuild", "handle %s (%s) is alive; a model built by the same edits has no such object (%s)"
                     % (lab, H[lab].fullname, type(e).__name__))
                continue
            if kind == "cells":
                for k, v in data.items():
                    stats["compared"] += 1
                    try:
                        r2 = ["val", h2(*k)]
                    except BaseException as e:
                        r2 = ["err", type(e).__name__]
                    if r2 != ["val", v]:
                        fail("stale-value", "handle %s (%s) holds %r at %r; a model built by the same edits computes %r"
                             % (lab, H[lab].fullname, v, k, r2))
            else:
                stats["compared"] += 1
                d2 = (int_refs(h2), sorted(h2.cells), sorted(h2.spaces))
                if d2 != data:
                    fail("stale-value", "handle %s (%s) shows references/members %r; a model built by the same edits %r"
                         % (lab, H[lab].fullname, data, d2))
    finally:
        m2.close()
    stats["audits"] += 1


def depth_of(h):
    d = 0
    while not isinstance(h, Model):
        if isinstance(h, ItemSpace):
            d += 1
        h = h.parent
    return d


def run_case(case):
    A.reset()
    mx.set_recalc(bool(case.get("recalc")))
    m = mx.new_model("M")
    H = {"M": m}
    depth = {}              # label -> number of ItemSpaces at or above the handle (recorded when taken)
    isitem = {}
    steps, fails, done = [], [], []
    stats = {"items_built": {}, "nested_deaths": 0, "edits_killing_nested": 0, "compared": 0, "audits": 0,
             "must_die_checked": 0, "skipped": 0, "full_checks": 0}
    ops = case["ops"]
    for idx, op in enumerate(ops):
        before = {lab: A.is_alive(h) for lab, h in H.items()}
        impl0 = {lab: id(h._impl) for lab, h in H.items()}
        exc = None
        try:
            out = do_op(m, H, op)
        except Skip as e:
            out = ["skipped"]
            stats["skipped"] += 1
        except BaseException as e:
            out = A.classify(e)
            exc = "%s: %s" % (type(e).__name__, str(e)[:160])
            H.pop(op.get("lab"), None)
        done.append(op)
        if op["op"] in ("item", "attr") and out == ["done"]:
            h = H[op["lab"]]
            try:
                depth[op["lab"]] = depth_of(h)
                isitem[op["lab"]] = isinstance(h, ItemSpace)
                if op["op"] == "item":
                    d = str(depth[op["lab"]])
                    stats["items_built"][d] = stats["items_built"].get(d, 0) + 1
            except BaseException:
                pass
        through_dead = [l for l in labels_of(op) if l in before and not before[l]]
        if exc is not None and not through_dead and op["op"] in EDIT_OPS and \
                not (op["op"] == "delitem" and exc.startswith("KeyError")):     # del of an item that is not there
            # every edit the generator draws is applicable: an exception means the edit left its work half done
            fails.append({"step": idx, "kind": "edit-raised",
                          "detail": "%r raised %s" % ({k: v for k, v in op.items() if k != "dead"}, exc)})
        if through_dead and out not in (["deleted"], ["skipped"]):
            fails.append({"step": idx, "kind": "dead-handle-op",
                          "detail": "%r uses the deleted handle(s) %r and answers %r (%s) instead of DeletedObjectError"
                                    % (op, through_dead, out, exc)})
        alive = {lab: A.is_alive(h) for lab, h in H.items()}
        died = [lab for lab, a in alive.items() if before.get(lab) and not a]
        nd = sum(1 for lab in died if isitem.get(lab) and depth.get(lab, 0) >= 2)
        stats["nested_deaths"] += nd
        if nd:
            stats["edits_killing_nested"] += 1
        for lab in op.get("dead", []):
            if lab in H:
                stats["must_die_checked"] += 1
                # with the recalculation option on, an assignment re-creates the leaf ItemSpaces at once and their
                # old handles serve the NEW object (interfaces are re-used by design): alive with another implementation
                recreated = bool(case.get("recalc")) and op["op"] == "setvalue" and id(H[lab]._impl) != impl0[lab]
                if alive[lab] and not recreated:
                    fails.append({"step": idx, "kind": "survivor",
                                  "detail": "after %r the handle %s (%s) must be dead (contained in / derived from / computed from "
                                            "what was deleted or cleared) but still works" % (
                                      {k: v for k, v in op.items() if k != "dead"}, lab, impl_name(H[lab]._impl))})
        labs = list(H)
        if op["op"] in CHECKED_AFTER or idx == len(ops) - 1 or out not in (["done"], ["skipped"]) and out[0] != "val":
            stats["full_checks"] += 1
            try:
                A.p_check(m, [H[l] for l in labs], idx, fails)
            except BaseException as e:
                fails.append({"step": idx, "kind": "observe-crash", "detail": "p_check: %s: %s" % (type(e).__name__, str(e)[:200])})
            try:
                deep_audit(m, H, idx, fails)
            except BaseException as e:
                fails.append({"step": idx, "kind": "observe-crash", "detail": "deep_audit: %s: %s" % (type(e).__name__, str(e)[:200])})
        if op["op"] == "audit" or idx == len(ops) - 1:
            try:
                rebuild_audit(H, done, idx, fails, stats)
            except BaseException as e:
                fails.append({"step": idx, "kind": "differential-crash", "detail": "%s: %s" % (type(e).__name__, str(e)[:200])})
        steps.append({"out": out, "exc": exc, "alive": alive})
        if len(fails) > 40:
            break
    # handle indices reported by p_check refer to the label order
    labs = list(H)
    A.reset()
    return {"ops": ops, "steps": steps, "pfail": fails, "stats": stats, "labels": labs}


def main():
    out = []
    for c in json.load(sys.stdin):
        out.append(run_case(c))
    print("@@RESULT " + json.dumps(out))


if __name__ == "__main__":
    main()
