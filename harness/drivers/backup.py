"""C14 driver: runs sequences of (possibly faulted) saves and loads on the REAL
modelx and reports, per save, the trace of file-system / pickling operations,
the exception, the session flags, the registry and what each of
<path>, <path>_BAK1.._BAK3 holds afterwards.

Fault injection needs no hook in /repo: the primitives are monkey-patched in
this process only.  While INJ.active, every call of a patched primitive is one
*operation*: it is appended to INJ.trace and, if its index equals INJ.fault,
it raises OSError instead of running.

stdin: JSON list of cases; stdout: "@@RESULT " + JSON list.
case = {"model": <builder>, "saves": [{"fmt": "zip"|"dir", "fault": k|null,
        "backup": bool, "natural": bool}], "loads": [...], "final": fmt|null}
"""
import sys, os, json, pathlib, shutil, tempfile, zipfile, types, warnings, gc

warnings.simplefilter("ignore")
import modelx as mx
from modelx.serialize import ziputil
from modelx.serialize import custom_pickle
import modelx.serialize.serializer_6 as ser6
import pickle

TMPROOT = pathlib.Path(os.environ.get("C14_TMP", "/verif/build/C14tmp"))


class Injected(OSError):
    pass


class Interrupted(KeyboardInterrupt):
    """the injected failure as a BaseException that is no Exception (seeded/C14_r4: handlers written `except Exception`)"""


class Inj:
    kind = None

    def __init__(self):
        self.active = False
        self.trace = []
        self.fault = None
        self.base = None        # the model path (for naming slots)
        self.fired = False

    def start(self, fault, base):
        self.active, self.trace, self.fault, self.base, self.fired = True, [], fault, base, False

    def stop(self):
        self.active = False
        return self.trace

    def tick(self, op):
        """record operation [op]; raise if it is the chosen fault point"""
        if not self.active:
            return
        k = len(self.trace)
        self.trace.append(op)
        if self.fault is not None and k == self.fault:
            self.fired = True
            if self.kind == "interrupt":
                raise Interrupted("injected interrupt at op %d %r" % (k, op))
            raise Injected("injected fault at op %d %r" % (k, op))


INJ = Inj()


def slot_of(p):
    """0..n if p is <base> or <base>_BAKn, else None"""
    s, b = str(p), str(INJ.base)
    if s == b:
        return 0
    if s.startswith(b + "_BAK") and s[len(b) + 4:].isdigit():
        return int(s[len(b) + 4:])
    return None


_orig = {}


def patch():
    P = pathlib.Path
    _orig.update(rename=P.rename, mkdir=P.mkdir, unlink=P.unlink, rmtree=shutil.rmtree, move=shutil.move,
                 write_file=ziputil.write_file, copy_file=ziputil.copy_file, make_root=ziputil.make_root,
                 read_file=ziputil.read_file, tdinit=tempfile.TemporaryDirectory.__init__)

    def rename(self, target):
        if INJ.active:
            a, b = slot_of(self), slot_of(target)
            INJ.tick(["mv", a, b] if a is not None and b is not None else ["mv?", str(self), str(target)])
        return _orig["rename"](self, target)

    def mkdir(self, mode=0o777, parents=False, exist_ok=False):
        if INJ.active:
            # parents=True recursion of pathlib re-enters this wrapper: every level is one operation
            INJ.tick(["mkdir", 0 if self.exists() else 1])
        return _orig["mkdir"](self, mode, parents, exist_ok)

    def unlink(self, missing_ok=False):
        if INJ.active:
            a = slot_of(self)
            INJ.tick(["rm", a] if a is not None else ["rm?", str(self)])
        return _orig["unlink"](self, missing_ok)

    def rmtree(path, *a, **kw):
        if INJ.active:
            s = slot_of(path)
            INJ.tick(["rm", s] if s is not None else ["cleanup"])
        return _orig["rmtree"](path, *a, **kw)

    def move(src, dst, *a, **kw):
        if INJ.active:
            INJ.tick(["move", slot_of(dst)])
        return _orig["move"](src, dst, *a, **kw)

    def write_file(callback, path, mode, *a, **kw):
        if INJ.active:
            INJ.tick(["open"])

            def cb(f):
                INJ.tick(["fill"])
                return callback(f)
            return _orig["write_file"](cb, path, mode, *a, **kw)
        return _orig["write_file"](callback, path, mode, *a, **kw)

    def copy_file(src, dst, *a, **kw):
        if INJ.active:
            s = slot_of(dst)
            if s is not None and os.path.isfile(str(src)):
                # a byte-wise copy ONTO a generation slot (seeded/C14_r5; the unchanged tree renames there) can fail
                # half-way: the failure point "copyslot-mid" leaves the partly written file behind
                INJ.tick(["copyslot", s])
                data = open(str(src), "rb").read()
                with open(str(dst), "wb") as g:
                    g.write(data[:max(1, len(data) // 2)])
                INJ.tick(["copyslot-mid", s])
            else:
                INJ.tick(["copy"])
        return _orig["copy_file"](src, dst, *a, **kw)

    def make_root(root, is_zip, *a, **kw):
        if INJ.active and is_zip:
            INJ.tick(["mkroot"])
        return _orig["make_root"](root, is_zip, *a, **kw)

    def read_file(callback, path, mode, *a, **kw):
        if INJ.active:
            INJ.tick(["ropen"])

            def cb(f):
                INJ.tick(["rfill"])
                return callback(f)
            return _orig["read_file"](cb, path, mode, *a, **kw)
        return _orig["read_file"](callback, path, mode, *a, **kw)

    def tdinit(self, *a, **kw):
        if INJ.active:
            INJ.tick(["tmpdir"])
        return _orig["tdinit"](self, *a, **kw)

    P.rename, P.mkdir, P.unlink = rename, mkdir, unlink
    shutil.rmtree, shutil.move = rmtree, move
    ziputil.write_file, ziputil.copy_file, ziputil.make_root, ziputil.read_file = write_file, copy_file, make_root, read_file
    tempfile.TemporaryDirectory.__init__ = tdinit

    for cls in (custom_pickle.ModelPickler, custom_pickle.IOSpecPickler):
        def dump(self, obj, _c=cls):
            if INJ.active:
                INJ.tick(["dump"])
            return pickle.Pickler.dump(self, obj)
        cls.dump = dump
    for cls in (custom_pickle.ModelUnpickler, custom_pickle.IOSpecUnpickler):
        def load(self, _c=cls):
            if INJ.active:
                INJ.tick(["load"])
            return pickle.Unpickler.load(self)
        cls.load = load


# --------------------------------------------------------------------------
# tiny models; set_gen(m, g) makes generation g distinguishable in every kind of
# member: a literal reference (model __init__.py), a formula (space source), a
# pickled input value (_data/data.pickle + S/_data/inp)
# --------------------------------------------------------------------------
def build(kind, tmp):
    m = mx.new_model("M")
    S = m.new_space("S")
    S.new_cells("f", formula="def f():\n    return 0")
    if kind != "nopickle":
        S.new_cells("inp", formula="def inp(x):\n    return -1")
    if kind == "nested":
        T = S.new_space("T")
        T.new_cells("h", formula="def h(x):\n    return x")
        T.h[1] = 7
        m.lst = [0]
    if kind == "module":
        src = tmp / "modsrc.py"
        src.write_text("K = 1\n")
        m.new_module("mod", "aux/mod.py", str(src))
    if kind == "dyn":
        D = m.new_space("D", formula="def _formula(i):\n    return None")
        D.new_cells("q", formula="def q(x):\n    return x")
    return m


def set_gen(m, kind, g):
    m.gen = g
    m.S.f.formula = "def f():\n    return %d" % g
    if kind != "nopickle":
        m.S.inp[0] = g
    if kind == "nested":
        m.lst = [g]
    if kind == "dyn":
        m.D[1].q[2] = g      # after the reference edits: they delete the ItemSpaces


def read_gen(r, kind):
    """what generation does the loaded model hold, member by member"""
    vals = [r.gen, r.S.f()]
    if kind != "nopickle":
        vals.append(r.S.inp(0))
    if kind == "nested":
        vals.append(r.lst[0])
        vals.append(r.gen if r.S.T.h(1) == 7 else -7)
    if kind == "module":
        vals.append(r.mod.K * r.gen)
    if kind == "dyn":
        vals.append(r.D[1].q(2))
    return vals


def excname(e):
    return type(e).__name__


def flags():
    s = mx.core.mxsys
    return [s.serializing is not None, s.iomanager.serializing is not None]


def registry():
    return sorted(mx.get_models())


def regview(m):
    """[is m still registered, was it renamed, how many other models are registered]"""
    ms = list(mx.get_models().values())
    here = any(x is m for x in ms)
    return [here, m.name != "M", len(ms) - (1 if here else 0)]


def count_entries(p):
    n = 1
    for _d, ds, fs in os.walk(p):
        n += len(ds) + len(fs)
    return n


def observe_slot(p, kind, before_models):
    """kind of thing at p, how many entries, what read_model makes of it; a
    failing read must leave the registry and the flags untouched"""
    o = {}
    if not p.exists():
        return {"k": "absent"}
    o["k"] = "dir" if p.is_dir() else "file"
    o["n"] = count_entries(p) if p.is_dir() else 1
    if o["k"] == "file":
        o["zipok"] = bool(zipfile.is_zipfile(p)) and _testzip(p)
    ident = {k: id(v) for k, v in mx.get_models().items()}
    try:
        r = mx.read_model(str(p), name="R")
    except BaseException as e:
        o["read"] = ["fail", excname(e)]
    else:
        try:
            o["read"] = ["ok", read_gen(r, kind)]
        except BaseException as e:
            o["read"] = ["evalfail", excname(e)]
        try:
            r.close()
        except BaseException as e:
            o["closefail"] = excname(e)
    after = {k: id(v) for k, v in mx.get_models().items()}
    if after != ident:
        o["residue"] = sorted(set(after) ^ set(ident)) or ["identity changed"]
        for name in list(mx.get_models()):
            if name not in ident:
                mx.get_models()[name].close()
    if any(flags()):
        o["flags"] = flags()
        mx.core.mxsys.serializing = None
        mx.core.mxsys.iomanager.serializing = None
    return o


def _testzip(p):
    try:
        with zipfile.ZipFile(p) as z:
            return z.testzip() is None
    except Exception:
        return False


def slots(base):
    return [base] + [pathlib.Path(str(base) + "_BAK%d" % i) for i in (1, 2, 3)]


def extra_listing(tmp, base):
    """anything next to the model path that is neither a slot nor a fixture"""
    ok = {p.name for p in slots(base)} | {"modsrc.py"}
    return sorted(x.name for x in tmp.iterdir() if x.name not in ok)


def do_save(m, base, sv, kind):
    INJ.start(sv.get("fault"), base)
    exc = None
    try:
        if sv["fmt"] == "zip":
            mx.zip_model(m, str(base), backup=sv.get("backup", True))
        else:
            mx.write_model(m, str(base), backup=sv.get("backup", True))
    except BaseException as e:
        exc = excname(e)
    trace = INJ.stop()
    fl = flags()
    if sv.get("natural"):
        del m.bad
    r = {"exc": exc, "trace": trace, "fired": INJ.fired, "flags": fl}
    if INJ.fired:
        r["fault_index"] = sv.get("fault")
    return r


def run_case(c, tmp):
    kind = c["model"]
    base = tmp / "mdl"
    m = build(kind, tmp)
    out = {"saves": [], "loads": []}
    g = 0
    for i_sv, sv in enumerate(c["saves"]):
        g += 1
        if sv.get("natural"):
            m.bad = (i for i in range(3))     # a generator cannot be pickled (set first: reference edits delete ItemSpaces)
        set_gen(m, kind, g)
        reg0 = registry()
        r = do_save(m, base, sv, kind)
        r["models"] = registry()
        r["regview"] = regview(m)
        r["models_same"] = (registry() == reg0) and mx.get_models().get("M") is m
        r["path_set"] = (m.path == base) if getattr(m, "path", None) is not None else False
        if (c.get("observe", "all") == "all" and i_sv >= c.get("observe_from", 0)) or sv is c["saves"][-1]:
            r["slots"] = [observe_slot(p, kind, None) for p in slots(base)]
        r["extra"] = extra_listing(tmp, base)
        out["saves"].append(r)
    for ld in c.get("loads", []):
        out["loads"].append(do_load(m, base, ld, kind, tmp))
    if c.get("final"):
        g += 1
        set_gen(m, kind, g)
        r = do_save(m, base, {"fmt": c["final"], "fault": None}, kind)
        r["slots"] = [observe_slot(p, kind, None) for p in slots(base)]
        r["models"] = registry()
        r["regview"] = regview(m)
        out["final"] = r
    return out


def corrupt(base, how, tmp):
    """damage the saved copy at [base]; returns a description"""
    if base.is_dir():
        files = sorted(str(p.relative_to(base)) for p in base.rglob("*") if p.is_file())
        f = files[how["index"] % len(files)]
        if how["what"] == "delete":
            (base / f).unlink()
        else:
            (base / f).write_bytes((base / f).read_bytes()[: how.get("keep", 3)])
        return [f, len(files)]
    else:
        with zipfile.ZipFile(base) as z:
            names = sorted(z.namelist())
            data = {n: z.read(n) for n in names}
        f = names[how["index"] % len(names)]
        if how["what"] == "delete":
            del data[f]
        else:
            data[f] = data[f][: how.get("keep", 3)]
        os.remove(base)
        with zipfile.ZipFile(base, "w") as z:
            for n, d in data.items():
                z.writestr(n, d)
        return [f, len(names)]


def do_load(m, base, ld, kind, tmp):
    """a load of <base> that fails at the k-th read operation, or of a damaged copy"""
    r = {}
    target = base
    if ld.get("corrupt"):
        target = tmp / "dmg"
        if target.exists():
            shutil.rmtree(target) if target.is_dir() else target.unlink()
        if base.is_dir():
            shutil.copytree(base, target)
        else:
            shutil.copyfile(base, target)
        r["damaged"] = corrupt(target, ld["corrupt"], tmp)
    if ld.get("closed_first"):
        pass
    ident = {k: id(v) for k, v in mx.get_models().items()}
    cur0 = mx.cur_model() is m
    INJ.kind = ld.get("fkind")
    INJ.start(ld.get("fault"), base)
    exc, vals = None, None
    try:
        x = mx.read_model(str(target), **({"name": ld["name"]} if ld.get("name") else {}))
    except BaseException as e:
        exc = excname(e)
    else:
        try:
            vals = read_gen(x, kind)
        except BaseException as e:
            vals = ["evalfail", excname(e)]
        r["loaded_name"] = x.name
    r["trace"] = INJ.stop()
    INJ.kind = None
    r["fired"] = INJ.fired
    if INJ.fired:
        r["fault_index"] = ld.get("fault")
    r["exc"] = exc
    r["vals"] = vals
    r["flags"] = flags()
    after = {k: id(v) for k, v in mx.get_models().items()}
    r["new"] = sorted(k for k, v in after.items() if v not in ident.values())
    r["gone"] = sorted(k for k, v in ident.items() if v not in after.values())
    r["renamed"] = sorted([k0, k1] for k0, v0 in ident.items() for k1, v1 in after.items() if v0 == v1 and k0 != k1)
    r["models"] = sorted(after)
    r["regview"] = regview(m)
    r["m_name"] = m.name
    # restore the session for the next operation
    for name, mod in list(mx.get_models().items()):
        if mod is not m:
            mod.close()
    if m.name != "M":
        m.rename("M")
    # afterwards a clean load must work
    try:
        y = mx.read_model(str(base), name="R2")
        r["after"] = ["ok", read_gen(y, kind)]
        y.close()
    except BaseException as e:
        r["after"] = ["fail", excname(e)]
    return r


def main():
    patch()
    cases = json.load(sys.stdin)
    res = []
    TMPROOT.mkdir(parents=True, exist_ok=True)
    for i, c in enumerate(cases):
        tmp = pathlib.Path(tempfile.mkdtemp(prefix="c%d_" % os.getpid(), dir=str(TMPROOT)))
        try:
            try:
                res.append(run_case(c, tmp))
            except BaseException as e:
                import traceback
                res.append({"driver_error": excname(e) + ": " + str(e), "tb": traceback.format_exc()[-1500:]})
        finally:
            INJ.active = False
            for name in list(mx.get_models()):
                try:
                    mx.get_models()[name].close()
                except Exception:
                    pass
            mx.core.mxsys.serializing = None
            mx.core.mxsys.iomanager.serializing = None
            _orig["rmtree"](tmp, ignore_errors=True)
            gc.collect()
    print("@@RESULT " + json.dumps(res))


if __name__ == "__main__":
    main()
