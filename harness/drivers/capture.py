"""C20 driver: creates cells on the REAL modelx from def / lambda texts (source
string, function object defined in a temporary module FILE, defcells decorator),
applies rename / doc edits, and reports formula.source, parameters, doc, values,
plus the token positions asttokens/ast give on the very texts the library worked on.

stdin: JSON list of cases; stdout: "@@RESULT " + JSON list (one dict per case)."""
import sys, json, os, ast, token, textwrap, tempfile, shutil, importlib.util, inspect, io, warnings, traceback

warnings.simplefilter("ignore")
import modelx as mx
import asttokens
from modelx.core import formula as F

TMP = tempfile.mkdtemp(prefix="mxc20_")
_modcount = [0]


def errname(e):
    return type(e).__name__


def reset():
    for m in list(mx.get_models().values()):
        try:
            m.close()
        except Exception:
            pass


# ---- token positions, looked up exactly as formula.py does ------------------
def blen(s):
    return len(s.encode("utf-8"))


def first_funcdef(atok):
    for node in ast.walk(atok.tree):
        if isinstance(node, ast.FunctionDef):
            return node
    return None


def def_positions(src):
    """positions used by remove_decorator (in dedent(src)) and by
    replace_funcname (in the text without decorators)"""
    out = {}
    d = textwrap.dedent(src)
    out["dedent"] = d
    atok = asttokens.ASTTokens(d, parse=True)
    node = first_funcdef(atok)
    if node.decorator_list:
        lf = atok.tokens[node.decorator_list[0].first_token.index - 1].start[0]
        ll = atok.tokens[node.decorator_list[-1].last_token.index + 1].start[0]
        out["deco"] = [lf, ll]
    else:
        out["deco"] = None
    s1 = F.remove_decorator(d)
    atok = asttokens.ASTTokens(s1, parse=True)
    node = first_funcdef(atok)
    i = node.first_token.index
    for i in range(node.first_token.index, node.last_token.index):
        if atok.tokens[i].type == token.NAME and atok.tokens[i].string == "def":
            break
    t = atok.tokens[i + 1]
    line = s1.split("\n")[t.start[0] - 1]
    # columns as UTF-8 byte offsets (the Coq model works on bytes)
    out["npos"] = [t.start[0], blen(line[:t.start[1]]), blen(line[:t.end[1]])]
    out["npos_chars"] = [t.start[0], t.start[1], t.end[1]]
    out["npos_sameline"] = t.start[0] == t.end[0]
    return out


def doc_positions(src):
    atok = asttokens.ASTTokens(src, parse=True)
    node = first_funcdef(atok)
    st = node.body[0]
    prev = atok.tokens[st.first_token.index - 1]
    has = isinstance(st, ast.Expr) and isinstance(st.value, ast.Constant) and isinstance(st.value.value, str)
    return {"indent": prev.string if prev.type == token.INDENT else None, "has": has,
            "P": blen(src[:prev.startpos]), "S": blen(src[:st.first_token.startpos]), "E": blen(src[:st.last_token.endpos])}     # end of the docstring STATEMENT (several tokens: D36, repaired in /repo)


def lambda_positions_source(src):
    d = textwrap.dedent(src)
    atok = asttokens.ASTTokens(d, parse=True)
    for node in ast.walk(atok.tree):
        if isinstance(node, ast.Lambda):
            break
    return {"dedent": d, "b": blen(d[:node.first_token.startpos]), "e": blen(d[:node.last_token.endpos])}


def lambda_positions_func(func):
    lines, row = inspect.findsource(func)
    src = "".join(lines)
    atok = asttokens.ASTTokens(src, parse=True)
    lams = [n for n in ast.walk(atok.tree) if isinstance(n, ast.Lambda) and n.lineno == row + 1]
    if len(lams) != 1:
        return {"file": src, "count": len(lams)}
    n = lams[0]
    return {"file": src, "count": 1, "b": blen(src[:n.first_token.startpos]), "e": blen(src[:n.last_token.endpos])}


# ---- helpers -----------------------------------------------------------------
def load_module(text):
    _modcount[0] += 1
    name = "mxc20_mod%d" % _modcount[0]
    path = os.path.join(TMP, name + ".py")
    with open(path, "w", encoding="utf-8") as f:
        f.write(text)
    spec = importlib.util.spec_from_file_location(name, path)
    mod = importlib.util.module_from_spec(spec)
    sys.modules[name] = mod
    spec.loader.exec_module(mod)
    return mod


def call_values(f, argsets):
    out = []
    for a in argsets:
        try:
            out.append(["ok", repr(f(*a))])
        except Exception as e:
            out.append(["err", errname(mx.get_error() or e) if isinstance(e, mx.core.errors.FormulaError) else errname(e)])
    return out


def sig_of(f):
    """signature and annotations of a function as plain data: annotation objects by their type and name, so that an
    annotation turned into a string (postponed evaluation inherited by compile/exec) shows"""
    def ann(a):
        if a is inspect.Parameter.empty:
            return None
        return [type(a).__name__, a if isinstance(a, str) else getattr(a, "__name__", repr(a))]
    sg = inspect.signature(f)
    return {"params": [[p.name, str(p.kind), ann(p.annotation), None if p.default is inspect.Parameter.empty else repr(p.default)]
                       for p in sg.parameters.values()],
            "return": ann(sg.return_annotation),
            "annotations": sorted([k, ann(v)] for k, v in getattr(f, "__annotations__", {}).items())}


def snapshot(c, argsets):
    r = {}
    try:
        r["sig"] = sig_of(c.formula.func)
    except Exception as e:
        r["sig"] = "err " + errname(e)
    try:
        r["name"] = c.name
        r["source"] = c.formula.source
        r["params"] = list(c.parameters)
        r["doc"] = c.doc
        r["cached"] = bool(c.is_cached)
        r["values"] = call_values(c, argsets)
    except Exception as e:
        r["snap_err"] = errname(e) + ": " + str(e)[:200]
    return r


OTHER_SRC = "def other(v):\n    return v * 2 + 1\n"


def make_space(model, name, globs):
    s = model.new_space(name)
    for k, v in globs.items():
        setattr(s, k, v)
    s.new_cells("other", formula=OTHER_SRC)
    return s


def plain_namespace(globs):
    ns = dict(globs)
    exec(OTHER_SRC, ns)
    return ns


def file_header(globs, deco):
    h = ("import modelx as mx\nREG = []\n"
         "def grab(f, *a, **k):\n    REG.append(f)\n    return f\n"
         "def ident(f):\n    return f\n"
         "def tag(*a, **k):\n    def deco(f):\n        f._tag = (a, tuple(sorted(k)))\n        return f\n    return deco\n"
         + "".join("%s = %r\n" % kv for kv in sorted(globs.items())) + OTHER_SRC)
    if deco:
        h += "SP = mx.cur_space()\n"
    return h


def run_case(c):
    kind = c["kind"]
    if kind == "script":
        ns = {}
        try:
            exec(c["script"], ns)
            return {"fails": False}
        except AssertionError as e:
            return {"fails": True, "err": "AssertionError: " + str(e)[:300]}
        except Exception as e:
            return {"fails": True, "err": errname(e) + ": " + str(e)[:300]}
    res = {"steps": []}
    globs = c.get("globals", {})
    argsets = [tuple(a) for a in c.get("args", [])]
    m = mx.new_model("M")
    S = make_space(m, "S", globs)
    nm = c.get("name")
    mode = c["mode"]
    is_lambda = kind == "lam"
    # ---- expected behaviour: the plain Python function ----
    ns = plain_namespace(globs)
    try:
        if is_lambda:
            plain = eval(c["lam"], ns)
        else:
            exec(c["plain"], ns)
            plain = ns[c["plain_name"]]
        res["expected"] = call_values(plain, argsets)
        res["expected_params"] = list(inspect.signature(plain).parameters)
        res["expected_sig"] = sig_of(plain)
    except Exception as e:
        res["plain_err"] = errname(e) + ": " + str(e)[:200]
        return res
    # ---- creation ----
    try:
        if mode == "source":
            raw = c["text"]
            cells = S.new_cells(name=nm, formula=raw)
        elif mode in ("func", "deco"):
            header = file_header(globs, mode == "deco")
            if mode == "deco":
                mx.cur_model(m.name)
                m.cur_space(S.name)
            mod = load_module(header + c["file_body"])
            obj = eval(c["getter"], mod.__dict__)
            if mode == "deco":
                cells = obj           # the decorator already made the cells
                raw = inspect.getsource(mod.REG[-1])
                res["direct"] = call_values(mod.REG[-1], argsets)
            else:
                cells = S.new_cells(name=nm, formula=obj)
                if is_lambda:
                    res["expected"] = call_values(obj, argsets)
                    res["lampos"] = lambda_positions_func(obj)
                    raw = res["lampos"]["file"]
                else:
                    raw = inspect.getsource(obj)
                    res["direct"] = call_values(obj, argsets)
        else:
            raise RuntimeError("mode " + mode)
        res["raw"] = raw
    except Exception as e:
        res["create_err"] = errname(e) + ": " + str(e)[:300]
        res["create_tb"] = traceback.format_exc()[-600:]
        return res
    try:
        if is_lambda:
            if mode == "source":
                res["lampos"] = lambda_positions_source(raw)
        else:
            res["defpos"] = def_positions(raw)
            res["formula_none"] = F.Formula(raw).source
    except Exception as e:
        res["pos_err"] = errname(e) + ": " + str(e)[:200]
    res["created"] = snapshot(cells, argsets)
    # ---- edits ----
    k = 0
    for op in c.get("ops", []):
        st = {"op": op["op"]}
        try:
            before = cells.formula.source
            st["before"] = before
            if op["op"] == "recreate":
                k += 1
                S2 = make_space(m, "R%d" % k, globs)
                if not is_lambda:
                    st["defpos"] = def_positions(before)
                c2 = S2.new_cells(name=cells.name if is_lambda else None, formula=before)
                st["snap"] = snapshot(c2, argsets)
            elif op["op"] == "rename":
                if not is_lambda:
                    st["defpos"] = def_positions(before)
                # bystanders (seeded/C20_r3): a sub space that derives the cells as it is, and one that overrides
                # it with a definition of its own; the rename reaches both and changes nothing but the name there
                by = None
                if op.get("bystanders") and not is_lambda:
                    k += 1
                    old = cells.name
                    plain = m.new_space("P%d" % k, bases=S)
                    over = m.new_space("O%d" % k, bases=S)
                    own = "def %s(q=3):\n    \"\"\"own doc\"\"\"\n    return ('own', q)    # override\n" % old
                    over.cells[old].formula = own
                    by = {"old": old, "own_before": over.cells[old].formula.source, "own_text": own,
                          "plain_before": plain.cells[old].formula.source}
                cells.rename(op["name"])
                st["snap"] = snapshot(cells, argsets)
                st["in_space"] = op["name"] in S.cells and S.cells[op["name"]] is cells
                if by is not None:
                    nn = op["name"]
                    by["own_after"] = over.cells[nn].formula.source if nn in over.cells else None
                    by["own_defined"] = bool(nn in over.cells and over.cells[nn]._is_defined())
                    by["own_value"] = repr(over.cells[nn]()) if nn in over.cells else None
                    by["own_doc"] = over.cells[nn].doc if nn in over.cells else None
                    by["plain_after"] = plain.cells[nn].formula.source if nn in plain.cells else None
                    by["plain_derived"] = bool(nn in plain.cells and plain.cells[nn]._is_derived())
                    by["names"] = [list(over.cells), list(plain.cells)]
                    st["bystanders"] = by
            elif op["op"] == "redefine":
                # @mx.defcells on a def named like an existing cells of the current space
                mx.cur_model(m.name)
                m.cur_space(S.name)
                argsets = [tuple(a) for a in op["args"]]
                ns2 = plain_namespace(globs)
                exec(op["plain"], ns2)
                st["expected"] = call_values(ns2[op["plain_name"]], argsets)
                st["expected_params"] = list(inspect.signature(ns2[op["plain_name"]]).parameters)
                st["expected_sig"] = sig_of(ns2[op["plain_name"]])
                mod = load_module(file_header(globs, True) + op["file_body"])
                obj = eval(op["getter"], mod.__dict__)
                st["same_object"] = obj is cells
                st["raw"] = inspect.getsource(mod.REG[-1])
                st["defpos"] = def_positions(st["raw"])
                st["snap"] = snapshot(cells, argsets)
            elif op["op"] == "doc":
                if not is_lambda:
                    st["docpos"] = doc_positions(before)
                    st["defpos"] = def_positions(before)
                if op.get("via") == "prop":
                    cells.doc = op["doc"]
                else:
                    cells.set_doc(op["doc"], insert_indents=bool(op.get("ins")))
                st["snap"] = snapshot(cells, argsets)
        except Exception as e:
            st["err"] = errname(e) + ": " + str(e)[:300]
            st["snap"] = snapshot(cells, argsets)
        res["steps"].append(st)
    return res


def main():
    out = []
    for c in json.load(sys.stdin):
        reset()
        try:
            out.append(run_case(c))
        except Exception as e:
            out.append({"driver_err": errname(e) + ": " + str(e)[:300], "tb": traceback.format_exc()[-800:]})
    reset()
    shutil.rmtree(TMP, ignore_errors=True)
    print("@@RESULT " + json.dumps(out))


main()
