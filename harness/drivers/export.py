"""C15 driver: builds generated models with the real modelx, evaluates the
queries, exports the model (twice: cached flags as generated / flipped) with
model.export, records every FormulaTransformer invocation made by the exporter,
then runs all exported packages in ONE sub-process in which importing modelx is
blocked (c15_nomx_runner.py) and returns model values, exported values and the
transformer observations."""
import sys, os, json, shutil, subprocess, ast as pyast, builtins
import modelx as mx
from modelx.export import transformer as _tr
from modelx.export import exporter as _ex
import c15gen as G
import c15lits

VERIF = os.path.dirname(os.path.dirname(os.path.dirname(os.path.abspath(__file__))))
TMP = os.path.join(VERIF, "build", "C15tmp")
os.makedirs(TMP, exist_ok=True)

RECORDS = []
_OrigFT = _tr.FormulaTransformer


class RecFT(_OrigFT):
    def __init__(self, source, cells, cacheless):
        rec = {"source": source, "cells": sorted(cells), "cacheless": sorted(cacheless), "code": None, "exc": None}
        RECORDS.append(rec)
        try:
            super().__init__(source, cells, cacheless)
            rec["code"] = self.transformed.code
        except BaseException as e:
            rec["exc"] = type(e).__name__
            raise


_ex.FormulaTransformer = RecFT      # the name the exporter looks up (exporter.py:36,493)


def close_all():
    for m in list(mx.get_models().values()):
        try:
            m.close()
        except Exception:
            pass


def mkval(spec, spaces):
    k = spec[0]
    if k in ("int", "str", "bool"):
        return spec[1]
    if k == "float":
        return float(spec[1])
    if k == "none":
        return None
    if k == "list":
        return list(spec[1])
    if k == "dict":
        return {a: b for a, b in spec[1]}
    if k == "tuple":
        return tuple(spec[1])
    if k == "space":
        return spaces[spec[1]]
    if k == "cells":
        return getattr(spaces[spec[1]], spec[2])
    if k == "module":
        return __import__(spec[1])
    if k == "lit":          # instance of a subclass of int / float / str (IntEnum, StrEnum, c15lits.Rate ...)
        return c15lits.make(spec[1])
    raise ValueError(k)


def build(case, flip):
    m = mx.new_model(case.get("mname", "M"))
    spaces = []
    for sp in case["spaces"]:
        parent = m if sp["parent"] is None else spaces[sp["parent"]]
        kw = {}
        if sp["bases"]:
            kw["bases"] = [spaces[i] for i in sp["bases"]]
        if sp.get("params") is not None:
            ps = ", ".join(p if d is None else "%s=%s" % (p, d) for p, d in sp["params"])
            kw["formula"] = "lambda %s: None" % ps
        s = parent.new_space(sp["name"], **kw)
        spaces.append(s)
    for sp, s in zip(case["spaces"], spaces):
        for c in sp["cells"]:
            src = G.formula_source(c["name"], c["params"], c["body"], c["style"])
            cached = c["cached"] != flip
            if c["name"] in s.cells:       # override of a derived cells
                s.cells[c["name"]].set_formula(src)
                if s.cells[c["name"]].is_cached != cached:
                    s.cells[c["name"]].is_cached = cached
            else:
                s.new_cells(c["name"], formula=src, is_cached=cached)
    for name, v in case.get("mrefs", []):
        setattr(m, name, mkval(v, spaces))
    for sp, s in zip(case["spaces"], spaces):
        for r in sp["refs"]:
            name, v = r[0], r[1]
            if len(r) > 2 and r[2]:
                s.set_ref(name, mkval(v, spaces), refmode=r[2])
            else:
                setattr(s, name, mkval(v, spaces))
    return m


def walk(obj, path):
    for seg in path:
        if seg[0] == "attr":
            obj = getattr(obj, seg[1])
        elif seg[0] == "item":
            obj = obj[seg[1][0]] if len(seg[1]) == 1 else obj[tuple(seg[1])]
        elif seg[0] == "call":
            obj = obj(*seg[1])
    return obj


def ask(root, q):
    try:
        return G.canon(getattr(walk(root, q["path"]), q["cell"])(*q["args"]))
    except RecursionError:
        return ["err", "RecursionError"]
    except Exception as e:
        orig = mx.get_error() if hasattr(mx, "get_error") else None
        e2 = orig if (type(e).__name__ == "FormulaError" and orig is not None) else e
        return ["err", type(e2).__name__]


def static_of(sp):
    t = type(sp).__name__
    if t == "ItemSpace":
        return static_of(sp.parent)
    if t == "DynamicSpace":
        return getattr(static_of(sp.parent), sp.name)
    return sp


def dump_model(m, case):
    """namespace / formulas / ItemSpaces of every space object that exists after the queries
    (static, derived, dynamic), as tables for Export/Run.v [mk_model]"""
    from modelx.core.cells import Cells
    sids, order = {}, []

    def visit(sp):
        if id(sp._impl) in sids:
            return
        sids[id(sp._impl)] = len(order)
        order.append(sp)
        for c in sp.spaces.values():
            visit(c)
        its = getattr(sp, "itemspaces", None)
        if its:
            for it in list(its.values()):
                visit(it)
    for s in m.spaces.values():
        visit(s)

    def val(v):
        if type(v) is bool:
            return ["b", v]
        if type(v) is int:
            return ["i", v]
        if type(v) is list and all(type(x) is int for x in v):
            return ["l", v]
        if hasattr(v, "_is_valid") and not v._is_valid():
            # a null object, e.g. a derived relative reference to a child space the derived space does not have:
            # a cells / space that does not exist (every use fails, as in the model)
            return ["cell", len(order), "null"] if isinstance(v, Cells) else ["obj", len(order)]
        if isinstance(v, Cells):
            ps = v.parent
            return ["cell", sids[id(ps._impl)], v.name] if id(ps._impl) in sids else ["opaque"]
        if hasattr(v, "_impl") and id(v._impl) in sids:
            return ["obj", sids[id(v._impl)]]
        return ["opaque"]
    out = []
    for sid, sp in enumerate(order):
        ns = []
        for k, v in sp.refs.items():
            if k[0] != "_":
                ns.append([k, val(v)])
        for k, c in sp.spaces.items():
            ns.append([k, ["obj", sids[id(c._impl)]]])
        cells = []
        for k, c in sp.cells.items():
            ns.append([k, ["cell", sid, k]])
            src = c.formula.source
            fs = G.funcs_from_source(src)       # may raise Unsupported
            ps, body = fs.get(k) or fs.get("<lambda>") or list(fs.values())[0]
            cells.append([k, ps, body])
        items = []
        its = getattr(sp, "itemspaces", None)
        if its:
            for key, it in its.items():
                key = list(key) if isinstance(key, tuple) else [key]
                if all(type(x) is int for x in key):
                    items.append([key, sids[id(it._impl)]])
        st = static_of(sp)
        # module-level names the exporter hands to FormulaTransformer for the class of the static space: references,
        # child spaces, parameters of the space and of the enclosing spaces (builtin_child, repaired in /repo), cells
        names = list(st.refs) + list(st.spaces)
        anc = st
        while hasattr(anc, "parameters"):
            names += list(anc.parameters or ())
            anc = anc.parent
        xtop = [k for k in dict.fromkeys(names) if k[0] != "_"] + list(st.cells)
        # Run.v model_okb wants s_top within the namespace: the parameters are attributes of the ItemSpace instances only,
        # not of the static space the class also serves (there a formula reading them fails in the model and in the package)
        have = {k for k, _ in ns}
        top = [k for k in xtop if k in have]
        cellnames = sorted(set(list(st.cells) + [k for k, v in st.refs.items() if isinstance(v, Cells)]))
        out.append({"ns": ns, "cells": cells, "items": items, "top": top, "xtop": xtop, "absent": [k for k in xtop if k not in have], "cellnames": cellnames, "repr": repr(sp)})
    qsid = []
    for q in case["queries"]:
        try:
            qsid.append(sids.get(id(walk(m, q["path"])._impl)))
        except Exception:
            qsid.append(None)
    return {"spaces": out, "qsid": qsid}


def module_top(source):
    names = []
    for s in pyast.parse(source).body:
        if isinstance(s, pyast.Assign):
            names += [t.id for t in s.targets if isinstance(t, pyast.Name)]
        elif isinstance(s, pyast.FunctionDef):
            names.append(s.name)
    return names


def observe(rec):
    """one FormulaTransformer invocation -> per function: source AST, transformed AST"""
    out = {"cells": rec["cells"], "cacheless": rec["cacheless"], "exc": rec["exc"], "funcs": []}
    try:
        out["top"] = module_top(rec["source"])
    except SyntaxError:
        out["exc"] = "source-syntax"
        return out
    if rec["code"] is None:
        return out
    try:
        mod = pyast.parse(rec["code"])
    except SyntaxError:
        out["exc"] = "transformed-code-SyntaxError"
        out["code"] = rec["code"][:400]
        return out
    tfuncs = {}
    for s in mod.body:
        if isinstance(s, pyast.FunctionDef):
            tfuncs[s.name] = s
    for s in pyast.parse(rec["source"]).body:
        if not isinstance(s, pyast.FunctionDef):
            continue
        name = s.name
        f = {"name": name}
        tname = name if name in rec["cacheless"] else "_f_" + name
        f["tname_ok"] = tname in tfuncs
        try:
            f["params"] = [a.arg for a in s.args.args]
            f["src"] = G.block_from_py(s.body)
            if tname in tfuncs:
                t = tfuncs[tname]
                tps = [a.arg for a in t.args.args]
                f["self_first"] = tps[:1] == ["self"]
                f["tparams"] = tps[1:]
                f["has_defaults"] = bool(s.args.defaults)
                f["out"] = G.block_from_py(t.body)
        except G.Unsupported as e:
            f["unsupported"] = str(e)
        out["funcs"].append(f)
    return out


def main():
    cases = json.load(sys.stdin)
    results = []
    pkgs = []
    for case in cases:
        r = {"id": case["id"], "vals": {}, "export_err": {}, "obs": []}
        for variant, flip in (("a", False), ("b", True)):
            close_all()
            pk = "%s%s" % (case["id"], variant)
            path = os.path.join(TMP, pk)
            shutil.rmtree(path, ignore_errors=True)
            try:
                m = build(case, flip)
            except Exception as e:
                r["build_err"] = "%s: %s" % (type(e).__name__, str(e)[:300])
                break
            r["vals"]["m" + variant] = [ask(m, q) for q in case["queries"]]
            if variant == "a":
                try:
                    r["dump"] = dump_model(m, case)
                except G.Unsupported as e:
                    r["dump_err"] = "unsupported: %s" % e
                except Exception as e:
                    r["dump_err"] = "%s: %s" % (type(e).__name__, str(e)[:200])
            del RECORDS[:]
            try:
                m.export(path)
                pkgs.append({"pkg": pk, "queries": case["queries"]})
            except BaseException as e:
                r["export_err"][variant] = "%s: %s" % (type(e).__name__, str(e)[:300])
            if variant == "a" or r["export_err"].get(variant):
                r["obs"] += [observe(x) for x in RECORDS]
        close_all()
        results.append(r)
    # every exported package in one sub-process without modelx
    exported = {}
    if pkgs:
        env = {k: v for k, v in os.environ.items() if k != "PYTHONPATH"}
        env["PYTHONPATH"] = os.path.join(VERIF, "harness")
        p = subprocess.run([sys.executable, "-B", os.path.join(VERIF, "harness", "c15_nomx_runner.py"), TMP],
                           input=json.dumps(pkgs), text=True, stdout=subprocess.PIPE, stderr=subprocess.PIPE, env=env)
        line = [l for l in p.stdout.splitlines() if l.startswith("@@NOMX ")]
        if p.returncode != 0 or len(line) != 1:
            sys.stderr.write("runner failed rc=%s\n%s\n%s" % (p.returncode, p.stdout[-1500:], p.stderr[-3000:]))
            sys.exit(3)
        exported = json.loads(line[0][7:])
    for r in results:
        for variant in "ab":
            e = exported.get(r["id"] + variant)
            if e is not None:
                r["vals"]["x" + variant] = e["vals"]
                if e.get("import_err"):
                    r["export_err"][variant] = "import: " + e["import_err"]
                r["modelx_blocked"] = e.get("modelx_blocked")
    bi = sorted(n for n in builtins.__dict__.keys() if n[:2] != '__' or n[-2:] != '__')
    for r in results:
        r["builtins_n"] = len(bi)
    if results:
        results[0]["builtins"] = bi
    if os.environ.get("C15_KEEP") != "1":
        for p in pkgs:
            shutil.rmtree(os.path.join(TMP, p["pkg"]), ignore_errors=True)
    print("@@RESULT " + json.dumps(results))


main()
