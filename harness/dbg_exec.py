import sys, json, re
sys.path.insert(0, "/verif/harness")
import fw, execlib
from fw import cnat, clist
d = json.load(open(sys.argv[1]))
case = d["case"]
res = fw.run_driver("exec", [case])[0]
cells, refs = execlib.cworld(case["world"])
st = "(init %s %s %s)" % (cells, refs, cnat(case["world"]["maxdepth"]))
ops = clist([execlib.cop(o) for o in case["ops"]])
obss = clist([execlib.cobs(ob) for ob in res["obs"]])
bad = fw.coq_show("dbg", execlib.REQUIRES, "first_bad %s %s %s %s 0%%nat" % (cnat(execlib.FUEL), st, ops, obss))
print(bad)
m = re.search(r"Some (\d+)", bad)
if m:
    i = int(m.group(1))
    for c in case["world"]["cells"]:
        print(execlib.render_cell(c, case["world"]))
    print("refs", case["world"]["refs"], "maxdepth", case["world"]["maxdepth"])
    print("ops", [o[:4] for o in case["ops"][:i + 1]])
    print("IMPL", json.dumps(res["obs"][i]))
    print(fw.coq_show("dbg", execlib.REQUIRES, "nth %s (model_trace %s %s %s) (OOk, [], [], [], [], [], None, [])" % (cnat(i), cnat(execlib.FUEL), st, ops)))
