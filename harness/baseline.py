"""run the repository's test-suite (guard off) and compare with /root/.vp/BASELINE.json stable_pass"""
import json, subprocess, sys, os, xml.etree.ElementTree as ET
repo = os.environ.get("MODELX_REPO", "/repo")
out = "/verif/build/baseline.junit.xml"
os.makedirs("/verif/build", exist_ok=True)
env = dict(os.environ); env.pop("MODELX_VERIF", None)
subprocess.run(["/venv/bin/python", "-m", "pytest", "-q", "-p", "no:cacheprovider", "--timeout=900",
                "--continue-on-collection-errors", "--junitxml=" + out], cwd=repo, env=env,
               stdout=subprocess.DEVNULL, stderr=subprocess.DEVNULL)
passed = set()
for tc in ET.parse(out).getroot().iter("testcase"):
    if not any(ch.tag in ("failure", "error", "skipped") for ch in tc):
        passed.add((tc.get("classname") + "::" + tc.get("name")).replace(repo, "/repo"))
want = set(json.load(open("/root/.vp/BASELINE.json"))["stable_pass"])
missing = sorted(want - passed)
print("stable_pass: %d, passing now: %d, missing: %d" % (len(want), len(want & passed), len(missing)))
for m in missing[:30]:
    print("  MISSING", m)
sys.exit(1 if missing else 0)
