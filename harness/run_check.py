import sys, os, importlib
sys.path.insert(0, os.path.dirname(os.path.abspath(__file__)))
import fw
def main():
    if len(sys.argv) < 2:
        print("usage: check Cxx [--tier quick|thorough] [--replay f]"); return 2
    prop = sys.argv[1]
    mod = importlib.import_module("props." + prop)
    return fw.main(prop, mod, sys.argv[2:])
if __name__ == "__main__":
    sys.exit(main())
