"""Generator of the NESTED class of C13 cases ((P) only; driver drivers/alivenest.py).

Why a separate class: in Alive/Model.v an ItemSpace is created by GetItem on a *static* space, its parameter
formula is `lambda i: None` (no precedents) and no ItemSpace lives inside another.  Here the parameter formulas
call cells and read references, so P[i] and P[i].C[j] are nodes *with precedents* of model.tracegraph / the
reference graph and a single edit of a precedent discards ItemSpaces at several nesting depths in ONE clear batch
(whose processing order is a set iteration order: hash of object ids).  The cases are judged by the property oracle
of the driver alone; they are never sent to the Coq tie.

World (all random):
  Src          static space: cells a (constant), b (constant or a() + 1), reference k
  g            model-level integer reference
  S            how Src is seen from P's tree: a model-level reference, or a space-level reference in every space
  P            parametric space (parameter i) at model level, cells vP
  [P.T]        optional static space between P and C
  C            parametric child (parameter j), cells vC;   [D] optional parametric child of C (parameter k), cells vD
  parameter formulas: None | constant refs | refs computed from S.a() | S.b() | S.k (attribute path -> reference
  graph) | g (name look-up); biased so that enclosing and enclosed ItemSpace share a precedent (directly, or
  b -> a).  Cells of the levels read the reference their ItemSpace was given, the parameter, sometimes S.a().
History: build R root ItemSpaces with N nested ItemSpaces each (and K third-level ones), keep handles to every
  ItemSpace, dynamic child space and cells, evaluate; then 2-4 rounds of: one edit, [audit], rebuild some.
Edits: del / redefine / assign / clear a precedent cells; change / delete the reference k or g; del P[i],
  P.clear_items(), del P[i].C[j], P[i].C.clear_items(); del of the static spaces C, T, P, Src; del of a level's
  cells; new cells / new reference in a copied static space; new parameter formula of P.
Mirror: for every handle the static definition path, the chain of ItemSpace keys above it and the precedents
  ("reads") of the parameter formulas of that chain; every edit lists the handles that MUST be dead afterwards
  (a lower bound: the library may discard more, e.g. every ItemSpace on a namespace change).

Not generated (known findings of other properties / of C13):
  (D22, del Src while a value was computed from S.k through the attribute path, is repaired in /repo: generated, counted del_Src_after_attr_read)
  (D38 (C07), a new parameter formula of a *child* space, is repaired in /repo: generated as setparams_C)
"""
import copy

PF_KINDS = ["none", "const", "a", "b", "k", "g", "a+k"]
TOK = {"a": ["cell:a"], "b": ["cell:b"], "k": ["attr:k"], "g": ["name:g"], "a+k": ["cell:a", "attr:k"], "none": [], "const": []}


def pf_src(kind, param, rname, const=1):
    if kind == "none":
        return "lambda %s: None" % param
    e = {"const": str(const), "a": "S.a()", "b": "S.b()", "k": "S.k", "g": "g", "a+k": "S.a() + S.k"}[kind]
    return "lambda %s: {'refs': {'%s': %s}}" % (param, rname, e)


class Gen:
    def __init__(self, rng, directed=None):
        self.rng = rng
        self.ops = []
        self.H = {}              # label -> {"spath": tuple, "chain": tuple of keys, "reads": frozenset, "kind": str}
        self.n = 0
        self.feat = {}
        self.edits = []
        self.avoided = {}
        self.one_batch = 0
        d = directed or {}
        r = rng
        self.structure = d.get("structure") or r.choice(["PC", "PC", "PC", "PTC", "PCD"])
        self.srcmode = d.get("srcmode") or r.choice(["local", "global"])
        self.b_calls_a = d.get("b_calls_a", r.random() < 0.6)
        self.b_input = False
        names = {"PC": ["P", "C"], "PTC": ["P", "C"], "PCD": ["P", "C", "D"]}[self.structure]
        params = ["i", "j", "k"]
        self.levels = []
        # parameter formulas: biased towards a shared precedent
        shared = d.get("shared", r.random() < 0.7)
        base = r.choice(["a", "a", "b", "k", "g", "a+k"])
        for li, nm in enumerate(names):
            if d.get("pf"):
                kind = d["pf"][li]
            elif shared:
                kind = base if r.random() < 0.7 else r.choice(["a", "b"] if base in ("a", "b") else [base, "a"])
            else:
                kind = r.choice(PF_KINDS)
            self.levels.append({"name": nm, "param": params[li], "pf": kind, "rname": "r" + nm,
                                "reads_a_in_cells": d.get("cells_read_a", r.random() < 0.3)})
        sp = ("P",)
        self.levels[0]["spath"] = sp
        sp = sp + (("T",) if self.structure == "PTC" else ()) + ("C",)
        self.levels[1]["spath"] = sp
        if len(self.levels) > 2:
            self.levels[2]["spath"] = sp + ("D",)
        self.sizes = d.get("sizes") or [r.choice([3, 4, 5, 6]), r.choice([2, 3, 4]), 2][:len(self.levels)]
        self.alive_static = set()      # static paths that exist
        self.src_cells = set()
        self.has_k = self.has_g = False
        self.feat = {"structure:" + self.structure: 1, "src:" + self.srcmode: 1,
                     "pf:" + "/".join(l["pf"] for l in self.levels): 1}
        toks = [self.level_reads(li) for li in range(len(self.levels))]
        if any(toks[i] & toks[i + 1] for i in range(len(toks) - 1)):
            self.feat["enclosing_and_nested_share_a_precedent"] = 1

    # ---------------------------------------------------------------- emit
    def emit(self, **op):
        self.ops.append(op)
        return op

    def lab(self, base):
        self.n += 1
        return "%s#%d" % (base, self.n)

    def cell_tokens(self, x):
        """tokens whose clearing clears the value of Src.x"""
        if x == "b" and self.b_calls_a and not self.b_input:
            return {"cell:b", "cell:a"}
        return {"cell:" + x}

    def level_reads(self, li):
        out = set()
        for t in TOK[self.levels[li]["pf"]]:
            out |= self.cell_tokens(t[5:]) if t.startswith("cell:") else {t}
        return out

    # ---------------------------------------------------------------- world
    def build_world(self):
        r = self.rng
        self.emit(op="space", lab="Src", **{"in": "M"}, name="Src", pf=None)
        self.H["Src"] = {"spath": ("Src",), "chain": (), "reads": frozenset(), "kind": "sspace"}
        self.new_src_cell("a")
        self.new_src_cell("b")
        self.emit(op="setref", **{"in": "Src"}, name="k", val=["int", r.randint(1, 9)])
        self.emit(op="setref", **{"in": "M"}, name="g", val=["int", r.randint(1, 9)])
        self.has_k = self.has_g = True
        if self.srcmode == "global":
            self.emit(op="setref", **{"in": "M"}, name="S", val=["h", "Src"])
        parent = "M"
        for li, lv in enumerate(self.levels):
            if li == 1 and self.structure == "PTC":
                self.emit(op="space", lab="T", **{"in": parent}, name="T", pf=None)
                self.H["T"] = {"spath": ("P", "T"), "chain": (), "reads": frozenset(), "kind": "sspace"}
                if self.srcmode == "local":
                    self.emit(op="setref", **{"in": "T"}, name="S", val=["h", "Src"])
                parent = "T"
            nm = lv["name"]
            self.emit(op="space", lab=nm, **{"in": parent}, name=nm, pf=pf_src(lv["pf"], lv["param"], lv["rname"], r.randint(1, 9)))
            self.H[nm] = {"spath": lv["spath"], "chain": (), "reads": frozenset(), "kind": "sspace"}
            if self.srcmode == "local":
                self.emit(op="setref", **{"in": nm}, name="S", val=["h", "Src"])
            body = lv["param"]
            if lv["pf"] not in ("none",):
                body = "%s * 100 + %s" % (lv["rname"], lv["param"])
            if lv["reads_a_in_cells"]:
                body += " + S.a()"
            cn = "v" + nm
            self.emit(op="cells", lab=cn, **{"in": nm}, name=cn, f="lambda: " + body)
            self.H[cn] = {"spath": lv["spath"] + (cn,), "chain": (), "reads": frozenset(), "kind": "scells"}
            lv["cells_alive"] = True
            parent = nm

    def new_src_cell(self, x, const=None):
        r = self.rng
        if x == "b" and self.b_calls_a:
            f = "lambda: a() + 1"
        else:
            f = "lambda: %d" % (const if const is not None else r.randint(1, 9))
        lab = self.lab(x)
        self.emit(op="cells", lab=lab, **{"in": "Src"}, name=x, f=f)
        self.H[lab] = {"spath": ("Src", x), "chain": (), "reads": frozenset(), "kind": "scells"}
        self.src_cells.add(x)
        return lab

    # ---------------------------------------------------------------- requests
    def request(self, li, parent_lab, chain, reads, keys, owns=()):
        """request the ItemSpaces [keys] of level li below parent_lab (a handle of the space holding level li),
        their cells, and recursively the next level"""
        lv = self.levels[li]
        r = self.rng
        for key in keys:
            ch = chain + (key,)
            own = frozenset(self.level_reads(li))
            rd = frozenset(reads | own)
            ow = owns + (own,)
            it = self.lab("%s%s" % (lv["name"], "".join("[%d]" % x for x in ch)))
            self.emit(op="item", lab=it, **{"in": parent_lab}, k=key)
            self.revive(lv["spath"], ch, rd, ow)
            self.H[it] = {"spath": lv["spath"], "chain": ch, "reads": rd, "kind": "item", "level": li, "owns": ow}
            if lv.get("cells_alive"):
                cl = self.lab(it.split("#")[0] + ".v")
                self.emit(op="attr", lab=cl, **{"in": it}, name="v" + lv["name"])
                self.revive(lv["spath"] + ("v" + lv["name"],), ch, rd, None)
                self.H[cl] = {"spath": lv["spath"] + ("v" + lv["name"],), "chain": ch, "reads": rd, "kind": "dcells", "level": li}
                if r.random() < 0.8:
                    self.emit(op="call", h=cl)
            if lv["pf"] != "none" and r.random() < 0.3:
                self.emit(op="getref", h=it, name=lv["rname"])
            if li + 1 < len(self.levels):
                nxt = self.levels[li + 1]
                cur = it
                mid = nxt["spath"][len(lv["spath"]):-1]       # static spaces between (T)
                sp = lv["spath"]
                for nm in mid + (nxt["name"],):
                    sp = sp + (nm,)
                    dl = self.lab(it.split("#")[0] + "." + nm)
                    self.emit(op="attr", lab=dl, **{"in": cur}, name=nm)
                    self.revive(sp, ch, rd, None)
                    self.H[dl] = {"spath": sp, "chain": ch, "reads": rd, "kind": "dspace", "level": li}
                    cur = dl
                n = self.sizes[li + 1]
                ks = list(range(1, n + 1))
                self.request(li + 1, cur, ch, rd, ks, ow)

    def revive(self, spath, chain, reads, owns):
        """modelx re-uses the interface objects of discarded dynamic spaces / cells when the same ItemSpace is built
        again (ItemSpaceParent.dynamic_cache): an old handle of the same object is the rebuilt object from now on"""
        for h in self.H.values():
            if h["spath"] == spath and h["chain"] == chain:
                h["reads"] = reads
                h.pop("gone", None)
                if owns is not None and "owns" in h:
                    h["owns"] = owns

    def request_roots(self, keys):
        self.request(0, "P", (), frozenset(), keys)
        self.emit(op="check")

    # ---------------------------------------------------------------- edits
    def kill(self, pred):
        return [lab for lab, h in self.H.items() if pred(h)]

    def by_token(self, toks):
        toks = set(toks)
        dead = self.kill(lambda h: bool(h["reads"] & toks))
        # one clear batch that holds the node of an ItemSpace and the node of an ItemSpace inside it?
        if any(sum(1 for o in h["owns"] if o & toks) >= 2 for h in self.H.values() if h["kind"] == "item" and not h.get("gone")):
            self.one_batch += 1
        return dead

    def mark_gone(self, labs):
        for l in labs:
            self.H[l]["gone"] = True

    def live_items(self, level=None):
        return [lab for lab, h in self.H.items() if h["kind"] == "item" and not h.get("gone")
                and (level is None or h["level"] == level)]

    def edit(self, kind=None, target=None):
        r = self.rng
        kinds = ["del_cell", "del_cell", "setformula", "setformula", "setvalue", "clear", "set_k", "del_k", "set_g", "del_g",
                 "del_root_item", "clear_root_items", "del_nested_item", "clear_nested_items", "del_space_C", "del_space_T",
                 "del_space_P", "del_space_Src", "del_level_cells", "new_cells_in_copy", "new_ref_in_copy", "setparams_P",
                 "setparams_C"]
        k = kind or r.choice(kinds)
        dead = None
        if k in ("del_cell", "setformula", "setvalue", "clear"):
            xs = sorted(self.src_cells)
            if not xs:
                return False
            # prefer a cells somebody read
            used = [x for x in xs if any(("cell:" + x) in h["reads"] for h in self.H.values() if not h.get("gone"))]
            x = target or r.choice(used or xs)
            hl = [lab for lab, h in self.H.items() if h["spath"] == ("Src", x) and not h.get("gone")][-1]
            dead = self.by_token(["cell:" + x])
            if k == "del_cell":
                dead += self.kill(lambda h: h["spath"] == ("Src", x))
                self.emit(op="del", **{"in": "Src"}, name=x, dead=dead)
                self.src_cells.discard(x)
                if x == "b":
                    self.b_input = False
            elif k == "setformula":
                if x == "b":
                    self.b_calls_a = r.random() < 0.5
                    self.b_input = False
                    f = "lambda: a() + 2" if self.b_calls_a else "lambda: %d" % r.randint(10, 19)
                else:
                    f = "lambda: %d" % r.randint(10, 19)
                self.emit(op="setformula", h=hl, f=f, dead=dead)
            elif k == "setvalue":
                self.emit(op="setvalue", h=hl, v=r.randint(20, 29), dead=dead)
                if x == "b":
                    self.b_input = True
            else:
                self.emit(op="clear", h=hl, dead=dead)
                if x == "b":
                    self.b_input = False
        elif k in ("set_k", "del_k"):
            if not self.has_k and k == "del_k":
                return False
            dead = self.by_token(["attr:k"])
            if k == "set_k":
                self.emit(op="setref", **{"in": "Src"}, name="k", val=["int", r.randint(10, 19)], dead=dead)
                self.has_k = True
            else:
                self.emit(op="del", **{"in": "Src"}, name="k", dead=dead)
                self.has_k = False
        elif k in ("set_g", "del_g"):
            if not self.has_g and k == "del_g":
                return False
            dead = self.by_token(["name:g"])
            if k == "set_g":
                self.emit(op="setref", **{"in": "M"}, name="g", val=["int", r.randint(10, 19)], dead=dead)
                self.has_g = True
            else:
                self.emit(op="del", **{"in": "M"}, name="g", dead=dead)
                self.has_g = False
        elif k == "del_root_item":
            its = self.live_items(0)
            if not its or "P" not in self.H or self.H["P"].get("gone"):
                return False
            key = self.H[r.choice(its)]["chain"][0]
            dead = self.kill(lambda h: h["chain"][:1] == (key,))
            self.emit(op="delitem", **{"in": "P"}, k=key, dead=dead)
        elif k == "clear_root_items":
            if self.H["P"].get("gone"):
                return False
            dead = self.kill(lambda h: len(h["chain"]) >= 1)
            self.emit(op="clearitems", **{"in": "P"}, dead=dead)
        elif k in ("del_nested_item", "clear_nested_items"):
            its = [l for l in self.live_items() if self.H[l]["level"] >= 1]
            if not its:
                return False
            it = self.H[r.choice(its)]
            ch, lvl = it["chain"], it["level"]
            par = [lab for lab, h in self.H.items() if h["kind"] == "dspace" and h["chain"] == ch[:-1]
                   and h["spath"] == it["spath"] and not h.get("gone")]
            if not par:
                return False
            if k == "del_nested_item":
                dead = self.kill(lambda h: h["chain"][:len(ch)] == ch and len(h["chain"]) >= len(ch)
                                 and h["spath"][:len(it["spath"])] == it["spath"])
                self.emit(op="delitem", **{"in": par[-1]}, k=ch[-1], dead=dead)
            else:
                pre = ch[:-1]
                dead = self.kill(lambda h: h["chain"][:len(pre)] == pre and len(h["chain"]) > len(pre)
                                 and h["spath"][:len(it["spath"])] == it["spath"])
                self.emit(op="clearitems", **{"in": par[-1]}, dead=dead)
        elif k in ("del_space_C", "del_space_T", "del_space_P", "del_space_Src"):
            nm = k[-1] if k != "del_space_Src" else "Src"
            if nm not in self.H or self.H[nm].get("gone"):
                return False
            sp = self.H[nm]["spath"]
            if nm == "Src":
                if any("attr:k" in h["reads"] for h in self.H.values() if not h.get("gone")) or \
                        any("k" in l["pf"] for l in self.levels):
                    # D22 is repaired in /repo: values read from S.k through the attribute path go with Src
                    self.avoided["del_Src_after_attr_read"] = self.avoided.get("del_Src_after_attr_read", 0) + 1
                dead = self.by_token(["cell:a", "cell:b", "attr:k"])
                dead += self.kill(lambda h: h["spath"][:1] == ("Src",))
                self.src_cells.clear()
                self.has_k = False
            else:
                dead = self.kill(lambda h: h["spath"][:len(sp)] == sp)
            parent = {"P": "M", "Src": "M", "T": "P", "C": "T" if self.structure == "PTC" else "P"}[nm]
            self.emit(op="del", **{"in": parent}, name=nm, dead=dead)
        elif k == "del_level_cells":
            lvs = [l for l in self.levels if l.get("cells_alive") and not self.H[l["name"]].get("gone")]
            if not lvs:
                return False
            lv = r.choice(lvs)
            sp = lv["spath"] + ("v" + lv["name"],)
            dead = self.kill(lambda h: h["spath"] == sp)
            self.emit(op="del", **{"in": lv["name"]}, name="v" + lv["name"], dead=dead)
            lv["cells_alive"] = False
        elif k in ("new_cells_in_copy", "new_ref_in_copy"):
            cands = [l["name"] for l in self.levels if not self.H[l["name"]].get("gone")]
            if "T" in self.H and not self.H["T"].get("gone"):
                cands.append("T")
            if not cands:
                return False
            nm = r.choice(cands)
            dead = []
            self.n += 1
            if k == "new_cells_in_copy":
                self.emit(op="cells", lab=self.lab("x"), **{"in": nm}, name="x%d" % self.n, f="lambda: %d" % r.randint(1, 9), dead=dead)
            else:
                self.emit(op="setref", **{"in": nm}, name="y%d" % self.n, val=["int", r.randint(1, 9)], dead=dead)
        elif k == "setparams_P":
            if self.H["P"].get("gone"):
                return False
            lv = self.levels[0]
            dead = self.kill(lambda h: len(h["chain"]) >= 1)
            lv["pf"] = r.choice(["none", "const", "a", "b", "k", "g"])
            # the level's cells keep reading rP: give it unless 'none' was drawn and the cells do not read it
            if lv["pf"] == "none":
                lv["pf"] = "const"
            self.emit(op="setparams", h="P", pf=pf_src(lv["pf"], lv["param"], lv["rname"], r.randint(1, 9)), dead=dead)
        elif k == "setparams_C":
            # D38 (C07) is repaired in /repo: a new parameter formula of the CHILD space discards every ItemSpace of P
            # (each holds a dynamic copy of C with the old formula)
            if "C" not in self.H or self.H["C"].get("gone") or self.H["P"].get("gone"):
                return False
            lv = self.levels[1]
            dead = self.kill(lambda h: len(h["chain"]) >= 1)
            lv["pf"] = r.choice(["const", "a", "b", "k", "g"])
            self.emit(op="setparams", h="C", pf=pf_src(lv["pf"], lv["param"], lv["rname"], r.randint(1, 9)), dead=dead)
        else:
            return False
        self.mark_gone(dead)
        self.edits.append(k)
        return True

    # ---------------------------------------------------------------- history
    def history(self):
        r = self.rng
        self.build_world()
        roots = list(range(1, self.sizes[0] + 1))
        self.request_roots(roots)
        rounds = r.choice([2, 3, 3, 4])
        for _ in range(rounds):
            for _try in range(6):
                if self.edit():
                    break
            if r.random() < 0.5:
                self.emit(op="audit")
            # repair the source now and then so that later requests succeed
            for x in ("a", "b"):
                if x not in self.src_cells and "Src" in self.H and not self.H["Src"].get("gone") and r.random() < 0.7:
                    if x == "b" and "a" not in self.src_cells:
                        self.b_calls_a = False
                    self.new_src_cell(x)
            if not self.has_k and not self.H["Src"].get("gone") and r.random() < 0.7:
                self.emit(op="setref", **{"in": "Src"}, name="k", val=["int", r.randint(1, 9)])
                self.has_k = True
            if not self.has_g and r.random() < 0.7:
                self.emit(op="setref", **{"in": "M"}, name="g", val=["int", r.randint(1, 9)])
                self.has_g = True
            if not self.H["P"].get("gone"):
                ks = [x for x in roots if r.random() < 0.7] or roots[:1]
                self.request_roots(ks)
        return self.ops


def gen_case(rng, directed=None):
    g = Gen(rng, directed)
    ops = g.history()
    feat = dict(g.feat)
    # a fifth of the histories runs with the recalculation option on: an assignment recomputes the leaf dependents at
    # once - ItemSpaces among them (recalc_itemspace_target, repaired in /repo)
    return {"nested": True, "ops": ops, "profile": "nested", "features": feat, "edits": g.edits,
            "avoided": g.avoided, "one_batch_edits": g.one_batch, "recalc": rng.random() < 0.2}


def demo_case():
    """the scenario of seeded/C13_r2/demo.py as a directed case: P[i] and P[i].C[j] both computed from Src.a"""
    import random
    g = Gen(random.Random(13), {"structure": "PC", "srcmode": "local", "b_calls_a": True, "pf": ["a", "b"],
                                "sizes": [6, 6], "cells_read_a": False, "shared": True})
    g.build_world()
    g.request_roots(list(range(1, 7)))
    g.edit("del_cell", "a")
    g.emit(op="audit")
    return {"nested": True, "ops": g.ops, "profile": "nested"}
