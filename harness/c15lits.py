"""C15 helper: reference values that are instances of SUBCLASSES of the literal
types (int / float / str).  modelx' exporter writes exact bool/int/float/str/None
values as literals and pickles everything else, so these must be pickled (a
literal would lose the type, the methods and - for enum members - would not
even be valid Python: `<HTTPStatus.OK: 200>`).

The module is imported by the generator (c15gen), by the driver process
(drivers/export.py, builds the values) and - through pickle - by the modelx-free
sub-process (c15_nomx_runner.py); all three have /verif/harness on sys.path
(fw.impl_env / the PYTHONPATH the driver gives to the runner).  stdlib only.
"""
import enum
import http
import signal


class Rate(float):
    """float subclass with methods (results rounded: no platform dependent last digits)"""

    def monthly(self):
        return round((1 + self) ** (1 / 12) - 1, 12)

    def scaled(self, n):
        return round(self * n, 9)


class Code(str):
    def country(self):
        return self.split('-')[0]


class Num(int):
    def double(self):
        return self * 2

    def bump(self, n):
        return Num(self + n)        # stays in the subclass


class Basis(enum.IntEnum):
    ACT360 = 360
    ACT365 = 365


# key -> (kind, factory, python expression for stand-alone reproducers; `c15lits` is imported there)
LITS = {
    "hs_ok": ("ienum", lambda: http.HTTPStatus.OK, "__import__('http').HTTPStatus.OK"),
    "hs_created": ("ienum", lambda: http.HTTPStatus.CREATED, "__import__('http').HTTPStatus.CREATED"),
    "hs_notfound": ("ienum", lambda: http.HTTPStatus.NOT_FOUND, "__import__('http').HTTPStatus.NOT_FOUND"),
    "sig_int": ("ienum", lambda: signal.Signals.SIGINT, "__import__('signal').Signals.SIGINT"),
    "sig_term": ("ienum", lambda: signal.Signals.SIGTERM, "__import__('signal').Signals.SIGTERM"),
    "basis_360": ("ienum", lambda: Basis.ACT360, "c15lits.Basis.ACT360"),
    "basis_365": ("ienum", lambda: Basis.ACT365, "c15lits.Basis.ACT365"),
    "rate_6": ("rate", lambda: Rate(0.06), "c15lits.Rate(0.06)"),
    "rate_25": ("rate", lambda: Rate(0.25), "c15lits.Rate(0.25)"),
    "rate_neg": ("rate", lambda: Rate(-0.5), "c15lits.Rate(-0.5)"),
    "code_gb": ("code", lambda: Code("GB-LDN"), "c15lits.Code('GB-LDN')"),
    "code_fr": ("code", lambda: Code("FR-PAR"), "c15lits.Code('FR-PAR')"),
    "num_7": ("num", lambda: Num(7), "c15lits.Num(7)"),
    "num_0": ("num", lambda: Num(0), "c15lits.Num(0)"),
    # EXACT floats that have no literal spelling (the exporter writes exact floats as literals)
    "f_inf": ("xfloat", lambda: float("inf"), "float('inf')"),
    "f_ninf": ("xfloat", lambda: float("-inf"), "float('-inf')"),
    "f_nan": ("xfloat", lambda: float("nan"), "float('nan')"),
    "f_15": ("xfloat", lambda: 1.5, "1.5"),
    # plain containers whose ORDER matters (seeded/C15_r4: written as a sorted pprint literal): dicts with keys in
    # non-alphabetical insertion order, also nested
    "d_bands": ("odict", lambda: {"young": 30, "adult": 65, "senior": 200}, "{'young': 30, 'adult': 65, 'senior': 200}"),
    "d_nested": ("odict", lambda: {"z": {"b": 1, "a": 2}, "c": 3, "m": [3, 1, 2]}, "{'z': {'b': 1, 'a': 2}, 'c': 3, 'm': [3, 1, 2]}"),
    "d_intkeys": ("odict", lambda: {10: "x", 2: "y", 7: "z"}, "{10: 'x', 2: 'y', 7: 'z'}"),
}
if hasattr(http, "HTTPMethod"):          # StrEnum, Python >= 3.11
    LITS["hm_get"] = ("senum", lambda: http.HTTPMethod.GET, "__import__('http').HTTPMethod.GET")
    LITS["hm_post"] = ("senum", lambda: http.HTTPMethod.POST, "__import__('http').HTTPMethod.POST")

BY_KIND = {}
for _k in sorted(LITS):
    BY_KIND.setdefault(LITS[_k][0], []).append(_k)
KINDS = sorted(BY_KIND)


def make(key):
    return LITS[key][1]()


def pyexpr(key):
    return LITS[key][2]


def needs_helper(key):
    return LITS[key][2].startswith("c15lits.")
